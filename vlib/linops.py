"""Linear-operator *programs*: JSON specs of sigpy Linop expression trees.

  st_tree(...)      Hypothesis strategy producing specs, type-directed (no rejection)
  shape_of(spec)    reference (oshape, ishape) computed WITHOUT sigpy
  build(spec)       the sigpy operator
  mat(A)            dense real-linear materialisation: columns A(e_j) and A(i e_j)
  dense_ref(spec, leaf_mat)   matrix of the tree by matrix algebra over its leaves
  sig(spec), classes(spec)

Leaf specs carry every constructor parameter; array parameters are array specs
(vlib.arrays).  Combinators: Compose, Add, Sub, Neg, Scale, Hstack, Vstack,
Diag, Conj, H, HH.
"""
import math
import warnings

import numpy as np
from hypothesis import strategies as st

from vlib import arrays as A
from vlib.arrays import prod

MAX_IN = 40
MAX_OUT = 96

COMBINATORS = ("Compose", "Add", "Sub", "Neg", "Scale", "Hstack", "Vstack", "Diag", "Conj", "H", "HH")


# ----------------------------------------------------------------------------
# small helpers


def cplx(s):
    if isinstance(s, dict):
        return complex(s["re"], s["im"])
    return s


def scalar_obj(s):
    """The scalar as the caller hands it over: a Python number, or (key "np") a NumPy scalar object of that type
    (np.float32 / np.float64 / np.complex64 / np.complex128 - e.g. an element taken from an array)."""
    if isinstance(s, dict):
        v = complex(s["re"], s["im"])
        t = s.get("np")
        if t:
            return np.dtype(t).type(v.real if np.dtype(t).kind == "f" else v)
        return v
    return s


def idx_of(spec_idx):
    out = []
    for e in spec_idx:
        if "i" in e:
            out.append(int(e["i"]))
        else:
            out.append(slice(*e["s"]))
    return tuple(out)


def wave_coeff_len(n, L, level):
    cur = n
    lens = []
    for _ in range(level):
        cur = (cur + L - 1) // 2
        lens.append(cur)
    return (cur + sum(lens)) if lens else n


def wavelet_shape(shape, wave, axes, level):
    import pywt
    w = pywt.Wavelet(wave)
    nd = len(shape)
    ax = list(range(nd)) if axes is None else [a % nd for a in axes]
    z = [((i + 1) // 2) * 2 for i in shape]
    mx = min(pywt.dwt_max_level(z[a], w.dec_len) for a in ax)
    lv = mx if level is None else level
    out = list(z)
    for a in ax:
        out[a] = wave_coeff_len(z[a], w.dec_len, lv)
    return out


def conv_out_shape(data_shape, filt_shape, mode, strides, mc):
    D = len(filt_shape) - 2 * mc
    m = data_shape[-D:]
    n = filt_shape[-D:]
    b = data_shape[:len(data_shape) - D - (1 if mc else 0)]
    s = [1] * D if strides is None else strides
    if mode == "full":
        p = [-(-(md + nd - 1) // sd) for md, nd, sd in zip(m, n, s)]
    else:
        p = [-(-(abs(md - nd) + 1) // sd) for md, nd, sd in zip(m, n, s)]
    return list(b) + ([filt_shape[0]] if mc else []) + p


def bshape(a, b):
    """numpy broadcast of two shapes (right aligned)."""
    n = max(len(a), len(b))
    a = [1] * (n - len(a)) + list(a)
    b = [1] * (n - len(b)) + list(b)
    return [max(x, y) for x, y in zip(a, b)]


# ----------------------------------------------------------------------------
# reference shapes


def shape_of(sp):
    """(oshape, ishape) of a spec by the documented shape rules (no sigpy)."""
    op = sp["op"]
    if op in ("Identity", "FFT", "IFFT", "Flip", "Circshift", "ToDevice", "AllReduce", "AllReduceAdjoint"):
        return list(sp["shape"]), list(sp["shape"])
    if op in ("Reshape", "Resize"):
        return list(sp["oshape"]), list(sp["ishape"])
    if op == "Transpose":
        s = sp["ishape"]
        if sp["axes"] is None:
            return list(s[::-1]), list(s)
        return [s[a] for a in sp["axes"]], list(s)
    if op == "Multiply":
        ms = [1] if "scalar" in sp["mult"] else sp["mult"]["shape"]
        return bshape(sp["ishape"], ms), list(sp["ishape"])
    if op in ("MatMul", "RightMatMul"):
        s = list(sp["ishape"])
        ms = list(sp["mat"]["shape"])
        if sp["adjoint"]:
            ms[-1], ms[-2] = ms[-2], ms[-1]
        n = max(len(s), len(ms))
        se = [1] * (n - len(s)) + s
        me = [1] * (n - len(ms)) + ms
        batch = bshape(se[:-2], me[:-2])
        if op == "MatMul":
            return batch + [me[-2], se[-1]], s
        return batch + [se[-2], me[-1]], s
    if op == "Downsample":
        s = sp["ishape"]
        sh = sp["shift"] or [0] * len(s)
        return [len(range(x, n, f)) for n, f, x in zip(s, sp["factors"], sh)], list(s)
    if op == "Upsample":
        o = sp["oshape"]
        sh = sp["shift"] or [0] * len(o)
        return list(o), [len(range(x, n, f)) for n, f, x in zip(o, sp["factors"], sh)]
    if op == "Sum":
        s = sp["ishape"]
        ax = {a % len(s) for a in sp["axes"]}
        return [n for d, n in enumerate(s) if d not in ax], list(s)
    if op == "Tile":
        o = sp["oshape"]
        ax = {a % len(o) for a in sp["axes"]}
        return list(o), [n for d, n in enumerate(o) if d not in ax]
    if op == "Slice":
        return list(np.empty(sp["ishape"], np.int8)[idx_of(sp["idx"])].shape), list(sp["ishape"])
    if op == "Embed":
        return list(sp["oshape"]), list(np.empty(sp["oshape"], np.int8)[idx_of(sp["idx"])].shape)
    if op in ("Interpolate", "NUFFT"):
        cs = sp["coord"]["shape"]
        d = cs[-1]
        return list(sp["ishape"][:-d]) + list(cs[:-1]), list(sp["ishape"])
    if op in ("Gridding", "NUFFTAdjoint"):
        cs = sp["coord"]["shape"]
        d = cs[-1]
        return list(sp["oshape"]), list(sp["oshape"][:-d]) + list(cs[:-1])
    if op == "Wavelet":
        return wavelet_shape(sp["ishape"], sp["wave"], sp["axes"], sp["level"]), list(sp["ishape"])
    if op == "InverseWavelet":
        return list(sp["oshape"]), wavelet_shape(sp["oshape"], sp["wave"], sp["axes"], sp["level"])
    if op in ("ArrayToBlocks", "BlocksToArray"):
        s = sp["shape"]
        B, S = sp["blk_shape"], sp["blk_strides"]
        D = len(B)
        nb = [(n - b + t) // t for n, b, t in zip(s[-D:], B, S)]
        blk = list(s[:-D]) + nb + list(B)
        return (blk, list(s)) if op == "ArrayToBlocks" else (list(s), blk)
    if op in ("ConvolveData", "ConvolveDataAdjoint"):
        o = conv_out_shape(sp["data_shape"], sp["filt"]["shape"], sp["mode"], sp["strides"], sp["mc"])
        return (o, list(sp["data_shape"])) if op == "ConvolveData" else (list(sp["data_shape"]), o)
    if op in ("ConvolveFilter", "ConvolveFilterAdjoint"):
        o = conv_out_shape(sp["data"]["shape"], sp["filt_shape"], sp["mode"], sp["strides"], sp["mc"])
        return (o, list(sp["filt_shape"])) if op == "ConvolveFilter" else (list(sp["filt_shape"]), o)
    if op in ("FiniteDifference", "Gradient"):
        s = sp["ishape"]
        k = len(s) if sp["axes"] is None else len(sp["axes"])
        return [k] + list(s), list(s)
    if op == "Sense":
        ms = sp["mps"]["shape"]
        if sp["coord"] is None or sp.get("transp_nufft"):
            return list(ms), list(ms[1:])
        return [ms[0]] + list(sp["coord"]["shape"][:-1]), list(ms[1:])
    if op == "ConvSense":
        ik = sp["img_ker_shape"]
        mk = sp["mps_ker"]["shape"]
        nc = mk[0]
        if sp["coord"] is None:
            return [nc] + [abs(a - b) + 1 for a, b in zip(ik, mk[1:])], list(ik)
        return [nc] + list(sp["coord"]["shape"][:-1]), list(ik)
    if op == "ConvImage":
        mk = sp["mps_ker_shape"]
        ik = sp["img_ker"]["shape"]
        nc = mk[0]
        if sp["coord"] is None:
            return [nc] + [abs(a - b) + 1 for a, b in zip(ik, mk[1:])], list(mk)
        return [nc] + list(sp["coord"]["shape"][:-1]), list(mk)
    if op == "PtxSpatialExplicit":
        ss = sp["sens"]["shape"]
        return list(ss[1:]), [ss[0], sp["coord"]["shape"][0]]
    # ---- combinators
    if op == "Compose":
        shs = [shape_of(o) for o in sp["ops"]]
        return shs[0][0], shs[-1][1]
    if op in ("Add", "Sub"):
        return shape_of(sp["a"])
    if op in ("Neg", "Scale", "Conj", "HH"):
        return shape_of(sp["a"])
    if op == "H":
        o, i = shape_of(sp["a"])
        return i, o
    if op in ("Hstack", "Vstack", "Diag"):
        shs = [shape_of(o) for o in sp["ops"]]

        def cat(shapes, axis):
            if axis is None:
                return [sum(prod(s) for s in shapes)]
            out = list(shapes[0])
            out[axis % len(out)] = sum(s[axis % len(out)] for s in shapes)
            return out
        if op == "Hstack":
            return shs[0][0], cat([s[1] for s in shs], sp["axis"])
        if op == "Vstack":
            return cat([s[0] for s in shs], sp["axis"]), shs[0][1]
        return cat([s[0] for s in shs], sp["oaxis"]), cat([s[1] for s in shs], sp["iaxis"])
    raise ValueError("unknown op %r" % op)


# ----------------------------------------------------------------------------
# build the sigpy operator


CONTAINERS = ("list", "list", "tuple", "npint")
_CT = ["list"]


def set_container(kind):
    """How shape / axes / shift / factor arguments are handed to the constructors by build(): Python list, tuple,
    or a list of numpy.int64 (what shape arithmetic with numpy produces). All three are 'tuple of ints' for a caller."""
    _CT[0] = kind or "list"


def _c(v):
    if v is None or not isinstance(v, (list, tuple)):
        return v
    if any(not isinstance(e, (int, np.integer)) or isinstance(e, bool) for e in v):
        return v
    k = _CT[0]
    if k == "tuple":
        return tuple(int(e) for e in v)
    if k == "npint":
        return [np.int64(e) for e in v]
    return list(v)


def build(sp):
    import sigpy
    L = sigpy.linop
    op = sp["op"]
    if op == "Identity":
        return L.Identity(_c(sp["shape"]))
    if op == "Reshape":
        return L.Reshape(_c(sp["oshape"]), _c(sp["ishape"]))
    if op == "Transpose":
        return L.Transpose(_c(sp["ishape"]), axes=_c(sp["axes"]))
    if op == "FFT":
        return L.FFT(_c(sp["shape"]), axes=_c(sp["axes"]), center=sp["center"])
    if op == "IFFT":
        return L.IFFT(_c(sp["shape"]), axes=_c(sp["axes"]), center=sp["center"])
    if op == "Multiply":
        m = sp["mult"]
        mult = scalar_obj(m["scalar"]) if "scalar" in m else A.arr(m)
        return L.Multiply(_c(sp["ishape"]), mult, conj=sp["conj"])
    if op == "MatMul":
        return L.MatMul(_c(sp["ishape"]), A.arr(sp["mat"]), adjoint=sp["adjoint"])
    if op == "RightMatMul":
        return L.RightMatMul(_c(sp["ishape"]), A.arr(sp["mat"]), adjoint=sp["adjoint"])
    if op == "Resize":
        return L.Resize(_c(sp["oshape"]), _c(sp["ishape"]), ishift=_c(sp["ishift"]), oshift=_c(sp["oshift"]))
    if op == "Flip":
        return L.Flip(_c(sp["shape"]), axes=_c(sp["axes"]))
    if op == "Circshift":
        return L.Circshift(_c(sp["shape"]), _c(sp["shift"]), axes=_c(sp["axes"]))
    if op == "Downsample":
        return L.Downsample(_c(sp["ishape"]), _c(sp["factors"]), shift=_c(sp["shift"]))
    if op == "Upsample":
        return L.Upsample(_c(sp["oshape"]), _c(sp["factors"]), shift=_c(sp["shift"]))
    if op == "Sum":
        return L.Sum(_c(sp["ishape"]), _c(sp["axes"]))
    if op == "Tile":
        return L.Tile(_c(sp["oshape"]), _c(sp["axes"]))
    if op == "Slice":
        return L.Slice(_c(sp["ishape"]), idx_of(sp["idx"]))
    if op == "Embed":
        return L.Embed(_c(sp["oshape"]), idx_of(sp["idx"]))
    if op == "Interpolate":
        return L.Interpolate(_c(sp["ishape"]), A.arr(sp["coord"]), kernel=sp["kernel"], width=sp["width"], param=sp["param"])
    if op == "Gridding":
        return L.Gridding(_c(sp["oshape"]), A.arr(sp["coord"]), kernel=sp["kernel"], width=sp["width"], param=sp["param"])
    if op == "NUFFT":
        return L.NUFFT(_c(sp["ishape"]), A.arr(sp["coord"]), oversamp=sp["oversamp"], width=sp["width"],
                       toeplitz=sp.get("toeplitz", False))
    if op == "NUFFTAdjoint":
        return L.NUFFTAdjoint(_c(sp["oshape"]), A.arr(sp["coord"]), oversamp=sp["oversamp"], width=sp["width"])
    if op == "Wavelet":
        with warnings.catch_warnings():
            warnings.simplefilter("ignore")
            return L.Wavelet(_c(sp["ishape"]), axes=_c(sp["axes"]), wave_name=sp["wave"], level=sp["level"])
    if op == "InverseWavelet":
        with warnings.catch_warnings():
            warnings.simplefilter("ignore")
            return L.InverseWavelet(_c(sp["oshape"]), axes=_c(sp["axes"]), wave_name=sp["wave"], level=sp["level"])
    if op == "ArrayToBlocks":
        return L.ArrayToBlocks(_c(sp["shape"]), _c(sp["blk_shape"]), _c(sp["blk_strides"]))
    if op == "BlocksToArray":
        return L.BlocksToArray(_c(sp["shape"]), _c(sp["blk_shape"]), _c(sp["blk_strides"]))
    if op in ("ConvolveData", "ConvolveDataAdjoint"):
        cls = getattr(L, op)
        return cls(_c(sp["data_shape"]), A.arr(sp["filt"]), mode=sp["mode"], strides=_c(sp["strides"]), multi_channel=sp["mc"])
    if op in ("ConvolveFilter", "ConvolveFilterAdjoint"):
        cls = getattr(L, op)
        return cls(_c(sp["filt_shape"]), A.arr(sp["data"]), mode=sp["mode"], strides=_c(sp["strides"]), multi_channel=sp["mc"])
    if op == "FiniteDifference":
        return L.FiniteDifference(_c(sp["ishape"]), axes=_c(sp["axes"]))
    if op == "Gradient":
        # deprecated public alias of FiniteDifference
        with warnings.catch_warnings():
            warnings.simplefilter("ignore")
            return L.Gradient(_c(sp["ishape"]), axes=_c(sp["axes"]))
    if op == "ToDevice":
        return L.ToDevice(sp["shape"], sigpy.cpu_device, sigpy.cpu_device)
    if op in ("AllReduce", "AllReduceAdjoint"):
        # single-process communicator (no MPI on this image): the reduction over one rank is the identity
        return getattr(L, op)(sp["shape"], sigpy.Communicator(), in_place=False)
    if op == "Sense":
        import sigpy.mri
        kw = {}
        if sp.get("tseg") is not None:
            t = sp["tseg"]
            kw["tseg"] = {"b0": A.arr(t["b0"]), "dt": t["dt"], "lseg": t["lseg"], "n_bins": t["n_bins"]}
        if sp.get("transp_nufft"):
            kw["transp_nufft"] = True
        if sp.get("comm"):
            kw["comm"] = sigpy.Communicator()
        if sp.get("ishape") is not None:
            kw["ishape"] = tuple(sp["ishape"])
        return sigpy.mri.linop.Sense(A.arr(sp["mps"]), coord=None if sp["coord"] is None else A.arr(sp["coord"]),
                                     weights=None if sp["weights"] is None else A.arr(sp["weights"]),
                                     coil_batch_size=sp["coil_batch_size"], **kw)
    if op == "ConvSense":
        import sigpy.mri
        return sigpy.mri.linop.ConvSense(sp["img_ker_shape"], A.arr(sp["mps_ker"]),
                                         coord=None if sp["coord"] is None else A.arr(sp["coord"]),
                                         weights=None if sp["weights"] is None else A.arr(sp["weights"]),
                                         grd_shape=sp["grd_shape"],
                                         comm=sigpy.Communicator() if sp.get("comm") else None)
    if op == "ConvImage":
        import sigpy.mri
        return sigpy.mri.linop.ConvImage(sp["mps_ker_shape"], A.arr(sp["img_ker"]),
                                         coord=None if sp["coord"] is None else A.arr(sp["coord"]),
                                         weights=None if sp["weights"] is None else A.arr(sp["weights"]),
                                         grd_shape=sp["grd_shape"])
    if op == "PtxSpatialExplicit":
        import sigpy.mri.rf
        return sigpy.mri.rf.linop.PtxSpatialExplicit(A.arr(sp["sens"]), A.arr(sp["coord"]), sp["dt"],
                                                     sp["sens"]["shape"][1:],
                                                     b0=None if sp["b0"] is None else A.arr(sp["b0"]))
    # ---- combinators (through the public algebra)
    if op == "Compose":
        ops = [build(o) for o in sp["ops"]]
        out = ops[0]
        for o in ops[1:]:
            out = out * o
        return out
    if op == "Add":
        return build(sp["a"]) + build(sp["b"])
    if op == "Sub":
        return build(sp["a"]) - build(sp["b"])
    if op == "Neg":
        return -build(sp["a"])
    if op == "Scale":
        s = scalar_obj(sp["s"])
        a = build(sp["a"])
        return s * a if sp["side"] == "l" else a * s
    if op == "Hstack":
        return L.Hstack([build(o) for o in sp["ops"]], axis=sp["axis"])
    if op == "Vstack":
        return L.Vstack([build(o) for o in sp["ops"]], axis=sp["axis"])
    if op == "Diag":
        return L.Diag([build(o) for o in sp["ops"]], oaxis=sp["oaxis"], iaxis=sp["iaxis"])
    if op == "Conj":
        return L.Conj(build(sp["a"]))
    if op == "H":
        return build(sp["a"]).H
    if op == "HH":
        return build(sp["a"]).H.H
    raise ValueError("unknown op %r" % op)


# ----------------------------------------------------------------------------
# signatures


def _strip(v):
    if isinstance(v, dict):
        if "k" in v and "shape" in v and "dtype" in v:
            return "arr%s" % (v["shape"],)
        return {k: _strip(x) for k, x in v.items()}
    if isinstance(v, list):
        return [_strip(x) for x in v]
    return v


def sig(sp):
    import json
    return json.dumps(_strip(sp), sort_keys=True, separators=(",", ":"))


def classes(sp, acc=None):
    acc = set() if acc is None else acc
    acc.add(sp["op"])
    for k in ("a", "b"):
        if k in sp and isinstance(sp[k], dict) and "op" in sp[k]:
            classes(sp[k], acc)
    for o in sp.get("ops", []):
        classes(o, acc)
    return acc


def leaves(sp):
    if sp["op"] not in COMBINATORS:
        return [sp]
    out = []
    for k in ("a", "b"):
        if k in sp and isinstance(sp[k], dict) and "op" in sp[k]:
            out += leaves(sp[k])
    for o in sp.get("ops", []):
        out += leaves(o)
    return out


# ----------------------------------------------------------------------------
# dense materialisation and reference algebra


def mat(Aop, ishape, dtype="complex128", real_only=False):
    """Columns A(e_j) (-> M) and A(i e_j) (-> Mi) as complex matrices of shape [n_out, n_in]."""
    n = prod(ishape)
    cols, colsi = [], []
    for j in range(n):
        e = np.zeros(n, dtype=dtype)
        e[j] = 1
        cols.append(np.array(Aop(e.reshape(ishape))).ravel().copy())
        if not real_only:
            e = np.zeros(n, dtype=dtype)
            e[j] = 1j
            colsi.append(np.array(Aop(e.reshape(ishape))).ravel().copy())
    # matrices are returned in complex128 so that norms of single-precision results cannot overflow
    M = np.stack(cols, axis=1).astype(np.complex128) if cols else np.zeros((0, 0), np.complex128)
    Mi = np.stack(colsi, axis=1).astype(np.complex128) if colsi else None
    return M, Mi


def mat_real(Aop, ishape, dtype="complex128"):
    """Columns A(e_j) with e_j held in the REAL dtype of the same precision (float64 / float32); None if the
    operator rejects real-dtype input (rejecting drops nothing)."""
    rdt = "float32" if dtype in ("complex64", "float32") else "float64"
    n = prod(ishape)
    cols = []
    for j in range(n):
        e = np.zeros(n, dtype=rdt)
        e[j] = 1
        try:
            cols.append(np.array(Aop(e.reshape(ishape))).ravel().copy())
        except Exception:
            return None
    return np.stack(cols, axis=1).astype(np.complex128) if cols else np.zeros((0, 0), np.complex128)


def _cat_matrix_rows(mats, shapes, axis):
    """Block-column: outputs of shapes `shapes` concatenated along axis (None: raveled)."""
    ncol = mats[0].shape[1]
    if axis is None:
        return np.concatenate(mats, axis=0)
    tens = [m.reshape(list(s) + [ncol]) for m, s in zip(mats, shapes)]
    nd = len(shapes[0])
    out = np.concatenate(tens, axis=axis % nd)
    return out.reshape(-1, ncol)


def dense_ref(sp, leaf_mat):
    """Matrix of the tree from matrix algebra; leaf matrices come from leaf_mat(spec)."""
    op = sp["op"]
    if op not in COMBINATORS:
        return leaf_mat(sp)
    if op == "Compose":
        ms = [dense_ref(o, leaf_mat) for o in sp["ops"]]
        out = ms[0]
        for m in ms[1:]:
            out = out @ m
        return out
    if op == "Add":
        return dense_ref(sp["a"], leaf_mat) + dense_ref(sp["b"], leaf_mat)
    if op == "Sub":
        return dense_ref(sp["a"], leaf_mat) - dense_ref(sp["b"], leaf_mat)
    if op == "Neg":
        return -dense_ref(sp["a"], leaf_mat)
    if op == "Scale":
        return cplx(sp["s"]) * dense_ref(sp["a"], leaf_mat)
    if op == "Conj":
        return np.conj(dense_ref(sp["a"], leaf_mat))
    if op == "H":
        return np.conj(dense_ref(sp["a"], leaf_mat)).T
    if op == "HH":
        return dense_ref(sp["a"], leaf_mat)
    shs = [shape_of(o) for o in sp["ops"]]
    ms = [dense_ref(o, leaf_mat) for o in sp["ops"]]
    if op == "Vstack":
        return _cat_matrix_rows(ms, [s[0] for s in shs], sp["axis"])
    if op == "Hstack":
        # block row = (block column of the transposes)^T, inputs concatenated along axis
        return _cat_matrix_rows([m.T for m in ms], [s[1] for s in shs], sp["axis"]).T
    if op == "Diag":
        # rows: outputs concatenated along oaxis; columns: inputs concatenated along iaxis
        nin = [m.shape[1] for m in ms]
        blocks = []
        for k, m in enumerate(ms):
            row = [m if j == k else np.zeros((m.shape[0], nin[j]), dtype=complex) for j in range(len(ms))]
            # columns of this block-row in the *input concatenation* ordering
            blocks.append(_cat_matrix_rows([r.T for r in row], [s[1] for s in shs], sp["iaxis"]).T)
        return _cat_matrix_rows(blocks, [s[0] for s in shs], sp["oaxis"])
    raise ValueError(op)


def opscale(sp, leaf_norm):
    """Magnitude of the OPERANDS of a tree (never of the possibly-cancelling result): leaf -> ||M||_F,
    product -> product, sum/difference/stack -> sum.  Tolerances of identities are taken relative to this."""
    op = sp["op"]
    if op not in COMBINATORS:
        return float(leaf_norm(sp))
    if op == "Compose":
        out = 1.0
        for o in sp["ops"]:
            out *= opscale(o, leaf_norm)
        return out
    if op in ("Add", "Sub"):
        return opscale(sp["a"], leaf_norm) + opscale(sp["b"], leaf_norm)
    if op == "Scale":
        return abs(cplx(sp["s"])) * opscale(sp["a"], leaf_norm)
    if op in ("Neg", "Conj", "H", "HH"):
        return opscale(sp["a"], leaf_norm)
    return sum(opscale(o, leaf_norm) for o in sp["ops"])


def tree_opscale(sp, dt):
    """opscale with leaf norms from the implementation's own leaf matrices (0 if a leaf cannot be materialised)."""
    cache = {}

    def ln(leaf):
        import json
        k = json.dumps(leaf, sort_keys=True)
        if k not in cache:
            try:
                o = build(leaf)
                with warnings.catch_warnings():
                    warnings.simplefilter("ignore")
                    cache[k] = float(np.linalg.norm(mat(o, o.ishape, dt, real_only=True)[0]))
            except Exception:
                cache[k] = 0.0
        return cache[k]
    try:
        return opscale(sp, ln)
    except Exception:
        return 0.0


def tree_opscale_est(sp, dt, seed=0):
    """opscale for spaces too large to materialise: a leaf's magnitude is estimated by ||L v|| / ||v|| for one
    generated complex v (a lower bound of ||L||_2, >= ||L||_F / sqrt(n) in expectation), then combined by
    product / sum like opscale.  Used only to keep tolerances relative to the OPERANDS when a result cancels."""
    rng = np.random.default_rng(seed)

    def ln(leaf):
        try:
            o = build(leaf)
            v = (rng.standard_normal(o.ishape) + 1j * rng.standard_normal(o.ishape)).astype(dt)
            with warnings.catch_warnings():
                warnings.simplefilter("ignore")
                y = np.asarray(o(v), dtype=np.complex128)
            return float(np.linalg.norm(y.ravel()) / max(np.linalg.norm(v.ravel()), 1e-300))
        except Exception:
            return 0.0
    try:
        return opscale(sp, ln)
    except Exception:
        return 0.0


# ----------------------------------------------------------------------------
# vector-level reference evaluation (for spaces too large to materialise)


def _split_along(x, shapes, axis):
    """Inverse of concatenation: pieces of x with the given shapes (axis None: flat pieces reshaped)."""
    if axis is None:
        flat = np.asarray(x).ravel()
        out, pos = [], 0
        for s in shapes:
            n = prod(s)
            out.append(flat[pos:pos + n].reshape(s))
            pos += n
        return out
    a = axis % len(shapes[0])
    cuts = np.cumsum([s[a] for s in shapes])[:-1]
    return np.split(np.asarray(x), cuts, axis=a)


def _cat_along(parts, axis):
    if axis is None:
        return np.concatenate([np.asarray(p).ravel() for p in parts])
    return np.concatenate([np.asarray(p) for p in parts], axis=axis % np.asarray(parts[0]).ndim)


def apply_ref(sp, x, adjoint=False):
    """T(x) (or T^H(x)) evaluated by the *definition* of the combinators on numpy arrays: leaves are applied
    through the implementation (leaf.H for adjoints), everything above them is concatenate/split/sum algebra."""
    op = sp["op"]
    x = np.asarray(x)
    if op not in COMBINATORS:
        L = build(sp)
        return np.asarray((L.H if adjoint else L)(x))
    if op == "Compose":
        ops = sp["ops"] if adjoint else sp["ops"][::-1]
        for o in ops:
            x = apply_ref(o, x, adjoint)
        return x
    if op in ("Add", "Sub"):
        a, b = apply_ref(sp["a"], x, adjoint), apply_ref(sp["b"], x, adjoint)
        return a + b if op == "Add" else a - b
    if op == "Neg":
        return -apply_ref(sp["a"], x, adjoint)
    if op == "Scale":
        c = cplx(sp["s"])
        return (np.conj(c) if adjoint else c) * apply_ref(sp["a"], x, adjoint)
    if op == "Conj":
        return np.conj(apply_ref(sp["a"], np.conj(x), adjoint))
    if op == "H":
        return apply_ref(sp["a"], x, not adjoint)
    if op == "HH":
        return apply_ref(sp["a"], x, adjoint)
    shs = [shape_of(o) for o in sp["ops"]]
    if op == "Diag":
        iax, oax = (sp["oaxis"], sp["iaxis"]) if adjoint else (sp["iaxis"], sp["oaxis"])
        ins = _split_along(x, [s[0] if adjoint else s[1] for s in shs], iax)
        return _cat_along([apply_ref(o, xi, adjoint) for o, xi in zip(sp["ops"], ins)], oax)
    # Hstack: inputs concatenated, outputs summed; Vstack: outputs concatenated; adjoints swap the roles
    rowlike = (op == "Hstack") != adjoint
    if rowlike:
        ins = _split_along(x, [s[0] if adjoint else s[1] for s in shs], sp["axis"])
        out = None
        for o, xi in zip(sp["ops"], ins):
            y = apply_ref(o, xi, adjoint)
            out = y if out is None else out + y
        return out
    return _cat_along([apply_ref(o, x, adjoint) for o in sp["ops"]], sp["axis"])


@st.composite
def st_big_tree(draw, max_depth=1, max_in=600, max_out=1500, dim_hi=16, min_in=48):
    """Operator programs on larger spaces (too big for dense materialisation)."""
    global MAX_IN, MAX_OUT
    old = (MAX_IN, MAX_OUT)
    MAX_IN, MAX_OUT = max_in, max_out
    try:
        c = draw(st_tree(max_depth=max_depth, max_in=max_in, dim_hi=dim_hi,
                         min_in=draw(st.sampled_from([0, min_in, min_in, 2 * min_in, 4 * min_in]))))
    finally:
        MAX_IN, MAX_OUT = old
    c["pseed"] = draw(A.seeds)
    return c


# ----------------------------------------------------------------------------
# strategies


def st_scalar(draw, allow_one=True):
    v = _st_scalar_value(draw, allow_one)
    # one in four scalars is a NumPy scalar object (what indexing an array or numpy arithmetic yields)
    t = draw(st.sampled_from([None, None, None, "float32", "float64", "complex64", "complex128"]))
    if t is None:
        return v
    c = cplx(v)
    if np.dtype(t).kind == "f":
        if isinstance(c, complex) and c.imag != 0:
            t = "complex64" if t == "float32" else "complex128"
    c = complex(c)
    return {"re": c.real, "im": c.imag, "np": t}


def _st_scalar_value(draw, allow_one=True):
    kind = draw(st.integers(0, 5))
    if kind == 0 and allow_one:
        return 1
    if kind == 1:
        return draw(st.integers(-3, 3)) / 2.0 or 2.0
    if kind == 2:
        return draw(st.integers(-4, 4)) or 3
    re = draw(st.integers(-6, 6)) / 4.0
    im = draw(st.integers(-6, 6)) / 4.0
    if re == 0 and im == 0:
        im = 0.5
    return {"re": re, "im": im}


def _arr_spec(draw, shape, dtype, small=10):
    n = prod(shape)
    if n <= small and draw(st.booleans()):
        return draw(A.dyadic(shape, dtype, lim=8, den=4))
    return {"k": "g", "shape": list(shape), "dtype": dtype, "seed": draw(A.seeds)}


def _real(dtype):
    return "float32" if dtype in ("complex64", "float32") else "float64"


def _axes(draw, nd, allow_none=True, allow_empty=False):
    return draw(A.axes_subset(nd, allow_none=allow_none, allow_empty=allow_empty))


def _coord(draw, grid, npts_shape, classes=("in", "out", "tie", "int")):
    """dyadic coordinates (den 16) for a grid; classes mix inside / outside / integer / half-integer."""
    d = len(grid)
    n = prod(npts_shape)
    vals = []
    for _ in range(n):
        cls = draw(st.sampled_from(classes))
        for g in grid:
            if cls == "in":
                v = draw(st.integers(-8 * g, 8 * g - 1))
            elif cls == "out":
                v = draw(st.integers(-16 * 3 * g, 16 * 3 * g))
            elif cls == "tie":
                v = 8 * draw(st.integers(-g - 1, g + 1))
            else:
                v = 16 * draw(st.integers(-g, g))
            vals.append(v)
    return {"k": "dy", "shape": list(npts_shape) + [d], "dtype": "float64", "re": vals, "im": None, "den": 16}


def _split(n):
    """some factorisations of n into 1..3 factors"""
    outs = [[n]]
    for a in range(1, n + 1):
        if n % a == 0:
            outs.append([a, n // a])
            m = n // a
            for b in range(2, m):
                if m % b == 0:
                    outs.append([a, b, m // b])
    return outs


# each leaf generator: (draw, ishape, dtype) -> spec ; applicable(ishape) -> bool


def g_identity(draw, s, dt):
    return {"op": "Identity", "shape": list(s)}


def g_reshape(draw, s, dt):
    o = draw(st.sampled_from(_split(prod(s))))
    o = list(draw(st.permutations(o)))
    return {"op": "Reshape", "oshape": o, "ishape": list(s)}


def g_transpose(draw, s, dt):
    nd = len(s)
    if draw(st.integers(0, 4)) == 0:
        return {"op": "Transpose", "ishape": list(s), "axes": None}
    perm = list(draw(st.permutations(list(range(nd)))))
    if draw(st.booleans()):
        perm = [p - nd if draw(st.booleans()) else p for p in perm]
    return {"op": "Transpose", "ishape": list(s), "axes": perm}


def g_fft(draw, s, dt):
    return {"op": draw(st.sampled_from(["FFT", "IFFT"])), "shape": list(s), "axes": _axes(draw, len(s), allow_empty=True),
            "center": draw(st.booleans())}


def multiply_adjoint_is_0d(s, ms):
    """Known finding KF-C01-1 (excluded by construction): the adjoint would reduce over every output axis."""
    o = bshape(s, ms)
    n = len(o)
    se = [1] * (n - len(s)) + list(s)
    me = [1] * (n - len(ms)) + list(ms)
    return all(i == 1 and (m != 1 or oo != 1) for i, m, oo in zip(se, me, o))


def g_multiply(draw, s, dt):
    conj = draw(st.booleans())
    kind = draw(st.integers(0, 5))
    if kind == 0:
        return {"op": "Multiply", "ishape": list(s), "mult": {"scalar": st_scalar(draw)}, "conj": conj}
    nd = len(s)
    if kind == 1:      # same shape
        ms = list(s)
    elif kind == 2:    # some dims 1
        ms = [n if draw(st.booleans()) else 1 for n in s]
    elif kind == 3:    # fewer dims (trailing)
        k = draw(st.integers(1, nd))
        ms = [n if draw(st.booleans()) else 1 for n in s[nd - k:]]
    elif kind == 4:    # more dims (leading extra) -> output grows
        ms = [draw(st.integers(1, 3))] + [n if draw(st.booleans()) else 1 for n in s]
    else:              # input dims of size 1 broadcast up
        ms = [draw(st.integers(1, 3)) if n == 1 else (n if draw(st.booleans()) else 1) for n in s]
    if prod(bshape(s, ms)) > MAX_OUT or multiply_adjoint_is_0d(s, ms):
        ms = list(s)
    mk = draw(st.sampled_from(["float"] * 5 + ["bool", "uint8", "int8", "int16"]))
    if mk != "float":
        # masks and integer-valued weights: boolean / narrow integer arrays are valid multipliers
        lo, hi = {"bool": (0, 1), "uint8": (0, 255), "int8": (-100, 100), "int16": (-300, 300)}[mk]
        return {"op": "Multiply", "ishape": list(s), "conj": conj,
                "mult": {"k": "ri", "shape": ms, "dtype": mk, "seed": draw(A.seeds), "lo": lo, "hi": hi}}
    return {"op": "Multiply", "ishape": list(s), "mult": _arr_spec(draw, ms, dt), "conj": conj}


def g_matmul(draw, s, dt):
    right = draw(st.booleans())
    adj = draw(st.booleans())
    k = s[-1] if right else s[-2]
    m = draw(st.integers(1, 4))
    core = [k, m] if right else [m, k]
    if adj:
        core = core[::-1]
    bk = draw(st.integers(0, 3))
    batch_in = s[:-2]
    if bk == 0:
        batch = []
    elif bk == 1:
        batch = list(batch_in)
    elif bk == 2:
        batch = [n if draw(st.booleans()) else 1 for n in batch_in]
    else:
        batch = [draw(st.integers(1, 2))] + [draw(st.integers(1, 3)) if n == 1 else n for n in batch_in]
    other = s[-2] if right else s[-1]
    if prod(bshape(batch_in, batch)) * m * other > MAX_OUT:
        batch = []
    return {"op": "RightMatMul" if right else "MatMul", "ishape": list(s), "mat": _arr_spec(draw, batch + core, dt),
            "adjoint": adj}


def g_resize(draw, s, dt):
    o = [draw(st.integers(1, n + 3)) for n in s]
    while prod(o) > MAX_OUT:
        o[o.index(max(o))] -= 1
    ishift = oshift = None
    if o != list(s) and draw(st.integers(0, 2)) == 0:
        ishift = [draw(st.integers(0, n - 1)) for n in s]
        oshift = [draw(st.integers(0, n - 1)) for n in o]
    return {"op": "Resize", "oshape": o, "ishape": list(s), "ishift": ishift, "oshift": oshift}


def g_flip(draw, s, dt):
    return {"op": "Flip", "shape": list(s), "axes": _axes(draw, len(s), allow_empty=True)}


def g_circshift(draw, s, dt):
    axes = _axes(draw, len(s), allow_empty=True)
    k = len(s) if axes is None else len(axes)
    return {"op": "Circshift", "shape": list(s), "shift": [draw(st.integers(-7, 7)) for _ in range(k)], "axes": axes}


def g_downsample(draw, s, dt):
    f = [draw(st.integers(1, 3)) for _ in s]
    shift = None
    if draw(st.booleans()):
        shift = [draw(st.integers(0, (n if draw(st.booleans()) else min(ff, n)) - 1)) for ff, n in zip(f, s)]
    return {"op": "Downsample", "ishape": list(s), "factors": f, "shift": shift}


def g_upsample(draw, s, dt):
    f = [draw(st.integers(1, 3)) for _ in s]
    shift = [draw(st.integers(0, (2 * ff if draw(st.booleans()) else ff - 1))) for ff in f] if draw(st.booleans()) else None
    sh = shift or [0] * len(s)
    o = [x + (n - 1) * ff + 1 + draw(st.integers(0, ff - 1)) for n, ff, x in zip(s, f, sh)]
    if prod(o) > MAX_OUT:
        f = [1] * len(s)
        shift = None
        o = list(s)
    return {"op": "Upsample", "oshape": o, "factors": f, "shift": shift}


def g_sum(draw, s, dt):
    nd = len(s)
    k = draw(st.integers(1, nd - 1))
    ax = draw(st.lists(st.integers(0, nd - 1), min_size=k, max_size=k, unique=True))
    ax = [a - nd if draw(st.booleans()) else a for a in ax]
    return {"op": "Sum", "ishape": list(s), "axes": ax}


def g_tile(draw, s, dt):
    nd = len(s)
    k = draw(st.integers(1, max(1, 3 - nd))) if nd < 3 else 1
    o = list(s)
    ax = []
    for _ in range(k):
        pos = draw(st.integers(0, len(o)))
        o.insert(pos, draw(st.integers(1, 3)))
        ax = [a + 1 if a >= pos else a for a in ax] + [pos]
    if prod(o) > MAX_OUT:
        for a in ax:
            o[a] = 1
    ax = [a - len(o) if draw(st.booleans()) else a for a in ax]
    return {"op": "Tile", "oshape": o, "axes": ax}


def g_slice(draw, s, dt):
    idx = []
    kept = 0
    for d, n in enumerate(s):
        last = d == len(s) - 1
        if n >= 1 and draw(st.integers(0, 4)) == 0 and not (last and kept == 0):
            idx.append({"i": draw(st.integers(-n, n - 1))})
            continue
        step = draw(st.sampled_from([1, 1, 2, 3, -1, -2]))
        if step > 0:
            a = draw(st.integers(0, n - 1))
            b = draw(st.integers(a + 1, n))
        else:
            a = draw(st.integers(0, n - 1))
            b = draw(st.integers(-1, a - 1))
            b = None if b == -1 else b
        if draw(st.integers(0, 3)) == 0 and step > 0:
            a, b = None, None
        idx.append({"s": [a, b, step]})
        kept += 1
    if draw(st.integers(0, 3)) == 0:      # shorter index tuple: trailing axes untouched
        cut = draw(st.integers(1, len(idx)))
        if any("s" in e for e in idx[:cut]) or cut < len(idx):
            idx = idx[:cut]
    return {"op": "Slice", "ishape": list(s), "idx": idx}


def g_embed(draw, s, dt):
    o, idx = [], []
    for n in s:
        step = draw(st.sampled_from([1, 1, 2, -1, -2]))
        ext = (n - 1) * abs(step) + 1
        lo = draw(st.integers(0, 2))
        hi = draw(st.integers(0, 2))
        size = lo + ext + hi
        if step > 0:
            idx.append({"s": [lo, lo + ext, step]})
        else:
            start = lo + ext - 1
            stop = lo - 1
            idx.append({"s": [start, None if stop < 0 else stop, step]})
        o.append(size)
    if prod(o) > MAX_OUT:
        o = list(s)
        idx = [{"s": [None, None, 1]} for _ in s]
    return {"op": "Embed", "oshape": o, "idx": idx}


def _kernel(draw, d):
    kernel = draw(st.sampled_from(["spline", "kaiser_bessel"]))
    per_axis = draw(st.integers(0, 3)) == 0
    if kernel == "spline":
        p = st.sampled_from([0, 1, 2])
    else:
        p = st.sampled_from([0.5, 2.0, 5.34, 9.0, 13.5])
    w = st.sampled_from([1.0, 1.5, 2.0, 2.5, 3.0, 4.0, 5.0])
    if per_axis:
        return kernel, [draw(w) for _ in range(d)], [draw(p) for _ in range(d)]
    wv = draw(w)
    if draw(st.booleans()) and wv == int(wv):
        wv = int(wv)
    return kernel, wv, draw(p)


def g_interpolate(draw, s, dt):
    d = draw(st.integers(1, min(3, len(s))))
    grid = s[len(s) - d:]
    npts = draw(st.sampled_from([[1], [2], [3], [5], [2, 2], [3, 2]]))
    kernel, w, p = _kernel(draw, d)
    return {"op": "Interpolate", "ishape": list(s), "coord": _coord(draw, grid, npts), "kernel": kernel, "width": w, "param": p}


def g_gridding(draw, s, dt):
    # ishape = batch + pts_shape ; choose how many trailing dims are the point shape
    k = draw(st.integers(1, min(2, len(s))))
    batch, pts = s[:len(s) - k], s[len(s) - k:]
    d = draw(st.integers(1, 3))
    grid = [draw(st.integers(1, 5)) for _ in range(d)]
    while prod(batch) * prod(grid) > MAX_OUT:
        grid[grid.index(max(grid))] -= 1
    kernel, w, p = _kernel(draw, d)
    return {"op": "Gridding", "oshape": list(batch) + grid, "coord": _coord(draw, grid, pts), "kernel": kernel, "width": w, "param": p}


def _nufft_params(draw):
    return draw(st.sampled_from([(1.25, 4), (1.25, 4), (2, 4), (2, 6), (1.5, 5), (1.25, 3), (1.375, 4.5)]))


def g_nufft(draw, s, dt):
    d = draw(st.integers(1, min(3, len(s))))
    grid = s[len(s) - d:]
    npts = draw(st.sampled_from([[1], [2], [4], [2, 2], [5]]))
    os_, w = _nufft_params(draw)
    return {"op": "NUFFT", "ishape": list(s), "coord": _coord(draw, grid, npts, ("in", "in", "out", "int", "tie")),
            "oversamp": os_, "width": w, "toeplitz": False}


def g_nufft_adjoint(draw, s, dt):
    k = draw(st.integers(1, min(2, len(s))))
    batch, pts = s[:len(s) - k], s[len(s) - k:]
    d = draw(st.integers(1, 3))
    grid = [draw(st.integers(1, 5)) for _ in range(d)]
    while prod(batch) * prod(grid) > MAX_OUT:
        grid[grid.index(max(grid))] -= 1
    os_, w = _nufft_params(draw)
    return {"op": "NUFFTAdjoint", "oshape": list(batch) + grid,
            "coord": _coord(draw, grid, pts, ("in", "in", "out", "int", "tie")), "oversamp": os_, "width": w}


# orthogonal families (C10) plus "dmey", which pywt flags orthogonal and whose inverse IS the adjoint although W^H W != I;
# biorthogonal names are excluded by construction: known finding KF-C01-2
WAVES = ["haar", "db2", "db4", "sym3", "coif1", "db3", "dmey"]


def g_wavelet(draw, s, dt):
    return {"op": "Wavelet", "ishape": list(s), "axes": _axes(draw, len(s)), "wave": draw(st.sampled_from(WAVES)),
            "level": draw(st.sampled_from([None, None, 1, 2]))}


def g_a2b(draw, s, dt):
    D = draw(st.integers(1, min(3, len(s))))
    N = s[len(s) - D:]
    if draw(st.sampled_from([False, False, True])):
        # exact tiling on every block axis (stride == block size dividing the extent): the regime in which the
        # normal operator is allowed to be the Identity shortcut
        B = [draw(st.sampled_from([b for b in range(1, n + 1) if n % b == 0])) for n in N]
        S = list(B)
    else:
        B = [draw(st.integers(1, n)) for n in N]
        S = [draw(st.integers(1, b + 1)) for b in B]
    return {"op": "ArrayToBlocks", "shape": list(s), "blk_shape": B, "blk_strides": S}


def g_convdata(draw, s, dt):
    mc = len(s) >= 2 and draw(st.booleans())
    maxD = len(s) - (1 if mc else 0)
    D = draw(st.integers(1, min(3, maxD)))
    m = s[len(s) - D:]
    mode = draw(st.sampled_from(["full", "valid"]))
    if mode == "valid":
        n = [draw(st.integers(1, md)) for md in m]
    else:
        n = [draw(st.integers(1, 4)) for _ in m]
    strides = [draw(st.integers(1, 3)) for _ in m] if draw(st.booleans()) else None
    fs = ([draw(st.integers(1, 3)), s[len(s) - D - 1]] if mc else []) + n
    sp = {"op": "ConvolveData", "data_shape": list(s), "filt": _arr_spec(draw, fs, dt), "mode": mode, "strides": strides, "mc": mc}
    if prod(shape_of(sp)[0]) > MAX_OUT:
        sp["filt"] = _arr_spec(draw, ([1, s[len(s) - D - 1]] if mc else []) + [1] * D, dt)
        sp["mode"] = "full"
    return sp


def g_convfilter(draw, s, dt):
    # ishape is the filter shape
    mc = len(s) >= 3 and draw(st.booleans())
    D = len(s) - (2 if mc else 0)
    if D > 3:
        return None
    n = s[len(s) - D:]
    mode = draw(st.sampled_from(["full", "valid"]))
    if mode == "valid":
        m = [nd + draw(st.integers(0, 3)) for nd in n]
    else:
        m = [draw(st.integers(1, 4)) for _ in n]
    nb = draw(st.integers(0, 1))
    batch = [draw(st.integers(1, 2)) for _ in range(nb)]
    ds = batch + ([s[1]] if mc else []) + m
    strides = [draw(st.integers(1, 3)) for _ in n] if draw(st.booleans()) else None
    sp = {"op": "ConvolveFilter", "filt_shape": list(s), "data": _arr_spec(draw, ds, dt), "mode": mode, "strides": strides, "mc": mc}
    if prod(shape_of(sp)[0]) > MAX_OUT:
        sp["data"] = _arr_spec(draw, ([s[1]] if mc else []) + list(n), dt)
        sp["mode"] = "valid"
        sp["strides"] = None
    return sp


def g_findiff(draw, s, dt):
    return {"op": draw(st.sampled_from(["FiniteDifference", "FiniteDifference", "Gradient"])), "ishape": list(s),
            "axes": _axes(draw, len(s))}


def g_device_comm(draw, s, dt):
    """ToDevice between CPU devices and AllReduce/AllReduceAdjoint over a single-process communicator."""
    return {"op": draw(st.sampled_from(["ToDevice", "AllReduce", "AllReduceAdjoint"])), "shape": list(s)}


def g_sense(draw, s, dt):
    nc = draw(st.integers(1, 4))
    while nc * prod(s) > MAX_OUT and nc > 1:
        nc -= 1
    cart = draw(st.booleans())
    coord = None
    if not cart:
        npts = draw(st.integers(1, 6))
        coord = _coord(draw, s, [npts], ("in", "in", "out", "int"))
        kshape = [npts]
    else:
        kshape = list(s)
    weights = None
    if draw(st.booleans()):
        wshape = kshape if draw(st.booleans()) else [nc] + kshape
        n = prod(wshape)
        weights = {"k": "dy", "shape": wshape, "dtype": _real(dt), "re": [draw(st.integers(0, 9)) for _ in range(n)],
                   "im": None, "den": 4}
    cbs = draw(st.sampled_from([None] + list(range(1, nc + 1))))
    if weights is not None and len(weights["shape"]) == len(kshape) + 1 and cbs is not None and cbs < nc:
        weights["shape"] = kshape
        weights["re"] = weights["re"][:prod(kshape)]
    sp = {"op": "Sense", "mps": _arr_spec(draw, [nc] + list(s), dt), "coord": coord, "weights": weights, "coil_batch_size": cbs}
    # further documented options of the factory (each drawn rarely; absent keys mean the default)
    opt = draw(st.sampled_from(["none", "none", "none", "comm", "transp", "tseg", "ishape"]))
    if opt == "comm":
        sp["comm"] = True
    elif opt == "ishape":
        sp["ishape"] = list(s)
    elif opt == "transp" and coord is not None:
        # transp_nufft=True composes NUFFT(-coord).H after the maps: the coordinate array must then have one
        # point per image voxel (shape ishape + [ndim]); the output lives on the image grid
        sp["coord"] = _coord(draw, s, list(s), ("in", "in", "out", "int"))
        sp["transp_nufft"] = True
        if weights is not None:
            sp["weights"] = None
    elif opt == "tseg" and coord is not None and len(s) == 2 and (cbs is None or cbs >= nc):
        # time-segmented off-resonance model (2-D images, all coils at once: the batched construction ignores tseg);
        # dt is a power of two so that int(len(coord)*dt/dt) == len(coord) exactly
        sp["tseg"] = {"b0": {"k": "g", "shape": list(s), "dtype": "float64", "seed": draw(A.seeds)},
                      "dt": draw(st.sampled_from([2.0 ** -8, 2.0 ** -6])), "lseg": draw(st.integers(1, 3)),
                      "n_bins": draw(st.integers(2, 6))}
    return sp


LEAF_GENS = {
    "Identity": (g_identity, lambda s: True),
    "Reshape": (g_reshape, lambda s: True),
    "Transpose": (g_transpose, lambda s: True),
    "FFT": (g_fft, lambda s: True),
    "Multiply": (g_multiply, lambda s: True),
    "MatMul": (g_matmul, lambda s: len(s) >= 2),
    "Resize": (g_resize, lambda s: True),
    "Flip": (g_flip, lambda s: True),
    "Circshift": (g_circshift, lambda s: True),
    "Downsample": (g_downsample, lambda s: True),
    "Upsample": (g_upsample, lambda s: True),
    "Sum": (g_sum, lambda s: len(s) >= 2),
    "Tile": (g_tile, lambda s: len(s) <= 3),
    "Slice": (g_slice, lambda s: True),
    "Embed": (g_embed, lambda s: True),
    "Interpolate": (g_interpolate, lambda s: True),
    "Gridding": (g_gridding, lambda s: True),
    "NUFFT": (g_nufft, lambda s: True),
    "NUFFTAdjoint": (g_nufft_adjoint, lambda s: True),
    "Wavelet": (g_wavelet, lambda s: len(s) <= 3),
    "ArrayToBlocks": (g_a2b, lambda s: True),
    "ConvolveData": (g_convdata, lambda s: True),
    "ConvolveFilter": (g_convfilter, lambda s: len(s) <= 5),
    "FiniteDifference": (g_findiff, lambda s: True),
    "DeviceComm": (g_device_comm, lambda s: True),
    "Sense": (g_sense, lambda s: 2 <= len(s) <= 3),
}
# classes parameterised by their OUTPUT shape are reached as .H of the partner
H_PARTNERS = {
    "InverseWavelet": "Wavelet", "BlocksToArray": "ArrayToBlocks",
    "ConvolveDataAdjoint": "ConvolveData", "ConvolveFilterAdjoint": "ConvolveFilter",
}
ALL_LEAF_NAMES = sorted(LEAF_GENS)


def direct_partner(sp):
    """The spec of the partner class constructed DIRECTLY (not through .H) for a leaf, if it has one."""
    op = sp["op"]
    if op == "Wavelet":
        return {"op": "InverseWavelet", "oshape": sp["ishape"], "axes": sp["axes"], "wave": sp["wave"], "level": sp["level"]}
    if op == "ArrayToBlocks":
        return dict(sp, op="BlocksToArray")
    if op == "ConvolveData":
        return dict(sp, op="ConvolveDataAdjoint")
    if op == "ConvolveFilter":
        return dict(sp, op="ConvolveFilterAdjoint")
    return None


def st_shape(draw, min_dims=1, max_dims=3, max_in=MAX_IN, dim_hi=6):
    nd = draw(st.integers(min_dims, max_dims))
    out = []
    for _ in range(nd):
        room = max(1, min(dim_hi, max_in // max(1, prod(out))))
        out.append(draw(st.integers(1, room)))
    return out


def leaf_for(draw, s, dt, only=None):
    names = [n for n in (only or ALL_LEAF_NAMES) if LEAF_GENS[n][1](s)]
    if not names:
        names = [n for n in ALL_LEAF_NAMES if LEAF_GENS[n][1](s)]
    for _ in range(4):
        name = draw(st.sampled_from(names))
        sp = LEAF_GENS[name][0](draw, s, dt)
        if sp is not None:
            o, i = shape_of(sp)
            if prod(o) <= MAX_OUT and prod(o) >= 1 and len(o) >= 1:
                return sp
    return g_identity(draw, s, dt)


def adaptor(draw, frm, to):
    """A non-trivial operator frm -> to built from Reshape/Resize (used to make operands fit)."""
    if list(frm) == list(to):
        return None
    ops = []
    cur = list(frm)
    if len(cur) == len(to):
        return {"op": "Resize", "oshape": list(to), "ishape": cur, "ishift": None, "oshift": None}
    if prod(cur) == prod(to):
        return {"op": "Reshape", "oshape": list(to), "ishape": cur}
    ops.append({"op": "Reshape", "oshape": [prod(cur)], "ishape": cur})
    ops.append({"op": "Resize", "oshape": [prod(to)], "ishape": [prod(cur)], "ishift": None, "oshift": None})
    ops.append({"op": "Reshape", "oshape": list(to), "ishape": [prod(to)]})
    return {"op": "Compose", "ops": ops[::-1]}


def fit(draw, sp, to):
    o, _ = shape_of(sp)
    ad = adaptor(draw, o, to)
    if ad is None:
        return sp
    return {"op": "Compose", "ops": [ad, sp]}


def _vary_axis(draw, base, axis, k):
    """k shapes equal to base except for (possibly different) extents along axis."""
    out = []
    for _ in range(k):
        s = list(base)
        s[axis] = draw(st.integers(1, 3))
        out.append(s)
    return out


def tree(draw, s, dt, depth, first=None):
    """A spec with input shape s (oshape free)."""
    s = list(s)
    if depth <= 0:
        return leaf_for(draw, s, dt, only=first)
    kind = draw(st.sampled_from(["leaf", "compose", "compose", "add", "scale", "hstack", "vstack", "diag",
                                 "conj", "H", "HH", "neg", "sumchain", "stack1", "perms"]))
    if kind == "leaf":
        return leaf_for(draw, s, dt, only=first)
    if kind == "compose":
        a = tree(draw, s, dt, depth - 1, first)
        o, _ = shape_of(a)
        b = tree(draw, o, dt, depth - 1)
        return {"op": "Compose", "ops": [b, a]}
    if kind == "add":
        a = tree(draw, s, dt, depth - 1, first)
        o, _ = shape_of(a)
        b = fit(draw, tree(draw, s, dt, depth - 1), o)
        return {"op": draw(st.sampled_from(["Add", "Sub"])), "a": a, "b": b}
    if kind == "perms":
        # a product of two or three pure index permutations (Transpose / Flip / Circshift / Reshape) that do not commute
        # in general: the order in which a product applies its factors is all there is to get wrong
        k = draw(st.integers(2, 3))
        cur = list(s)
        ops = []
        for j in range(k):
            t = leaf_for(draw, cur, dt, only=[n for n in ("Transpose", "Transpose", "Flip", "Circshift", "Reshape") if LEAF_GENS[n][1](cur)])
            ops.append(t)
            cur, _ = shape_of(t)
        return {"op": "Compose", "ops": ops[::-1]}
    if kind == "stack1":
        # a stack of exactly ONE operand (what a loop over a list of length 1 builds), every axis form
        a = tree(draw, s, dt, depth - 1, first)
        o, i = shape_of(a)
        which = draw(st.sampled_from(["Hstack", "Vstack", "Diag"]))
        # axis None flattens that side: allowed for the input side only when the input is 1-D already (the tree must
        # keep the input shape s it was asked for); the output side is free
        inone = [None] if len(i) == 1 else []
        if which == "Hstack":
            return {"op": "Hstack", "ops": [a], "axis": draw(st.sampled_from(inone + list(range(-len(i), len(i)))))}
        if which == "Vstack":
            return {"op": "Vstack", "ops": [a], "axis": draw(st.sampled_from([None] + list(range(-len(o), len(o)))))}
        return {"op": "Diag", "ops": [a], "oaxis": draw(st.sampled_from([None] + list(range(-len(o), len(o))))),
                "iaxis": draw(st.sampled_from(inone + list(range(-len(i), len(i)))))}
    if kind == "sumchain":
        # A + B - C (+ D): three or four terms, the first ones often operators that return a VIEW of their input
        # (Reshape, Transpose, Flip, Slice, Identity), so that in-place accumulation into a term's output shows
        k = draw(st.integers(3, 4))
        views = [n for n in ("Identity", "Reshape", "Transpose", "Flip", "Slice") if LEAF_GENS[n][1](s)]
        terms = []
        for j in range(k):
            if j < 2 and draw(st.booleans()):
                t = leaf_for(draw, s, dt, only=views)
            else:
                t = tree(draw, s, dt, max(0, depth - 2), first if j == 0 else None)
            terms.append(t)
        o0, _ = shape_of(terms[0])
        out = terms[0]
        for t in terms[1:]:
            out = {"op": draw(st.sampled_from(["Add", "Add", "Sub"])), "a": out, "b": fit(draw, t, o0)}
        return out
    if kind == "scale":
        return {"op": "Scale", "a": tree(draw, s, dt, depth - 1, first), "s": st_scalar(draw, allow_one=False),
                "side": draw(st.sampled_from(["l", "r"]))}
    if kind == "neg":
        return {"op": "Neg", "a": tree(draw, s, dt, depth - 1, first)}
    if kind == "conj":
        return {"op": "Conj", "a": tree(draw, s, dt, depth - 1, first)}
    if kind == "HH":
        return {"op": "HH", "a": tree(draw, s, dt, depth - 1, first)}
    if kind == "H":
        # need an operator whose OUTPUT shape is s: build X: t -> ?, fit to s, take .H
        t = st_shape(draw, 1, 3, 24)
        x = fit(draw, tree(draw, t, dt, depth - 1, first), s)
        return {"op": "H", "a": x}
    if kind == "vstack":
        k = draw(st.integers(2, 3))
        ops = [tree(draw, s, dt, depth - 1, first if j == 0 else None) for j in range(k)]
        o0, _ = shape_of(ops[0])
        if draw(st.integers(0, 3)) == 0:
            return {"op": "Vstack", "ops": ops, "axis": None}
        nd = len(o0)
        axis = draw(st.integers(-nd, nd - 1))
        targets = _vary_axis(draw, o0, axis % nd, k)
        targets[0] = o0
        ops = [ops[0]] + [fit(draw, op, t) for op, t in zip(ops[1:], targets[1:])]
        return {"op": "Vstack", "ops": ops, "axis": axis}
    if kind == "hstack":
        k = draw(st.integers(2, 3))
        nd = len(s)
        if draw(st.integers(0, 3)) == 0 and nd == 1:
            # axis None: input is the flat concatenation; split s[0] into k parts
            axis = None
        else:
            axis = draw(st.integers(-nd, nd - 1))
        a = (0 if axis is None else axis % nd)
        if s[a] < k:
            k = max(1, s[a])
        if k == 1:
            return tree(draw, s, dt, depth - 1, first)
        cuts = sorted(draw(st.lists(st.integers(1, s[a] - 1), min_size=k - 1, max_size=k - 1, unique=True))) if k > 1 else []
        bounds = [0] + cuts + [s[a]]
        ishapes = []
        for j in range(k):
            t = list(s)
            t[a] = bounds[j + 1] - bounds[j]
            ishapes.append(t)
        if axis is None and draw(st.booleans()):
            # operands may have any shape with the right number of elements
            ishapes = [draw(st.sampled_from(_split(prod(t)))) for t in ishapes]
        ops = [tree(draw, t, dt, depth - 1, first if j == 0 else None) for j, t in enumerate(ishapes)]
        o0, _ = shape_of(ops[0])
        ops = [ops[0]] + [fit(draw, op, o0) for op in ops[1:]]
        if k == 1:
            return ops[0]
        return {"op": "Hstack", "ops": ops, "axis": axis}
    if kind == "diag":
        k = draw(st.integers(2, 3))
        nd = len(s)
        iaxis = draw(st.integers(-nd, nd - 1)) if not (nd == 1 and draw(st.booleans())) else None
        a = 0 if iaxis is None else iaxis % nd
        if s[a] < k:
            k = max(1, s[a])
        if k == 1:
            return tree(draw, s, dt, depth - 1, first)
        cuts = sorted(draw(st.lists(st.integers(1, s[a] - 1), min_size=k - 1, max_size=k - 1, unique=True))) if k > 1 else []
        bounds = [0] + cuts + [s[a]]
        ishapes = []
        for j in range(k):
            t = list(s)
            t[a] = bounds[j + 1] - bounds[j]
            ishapes.append(t)
        if iaxis is None and draw(st.booleans()):
            # flattened inputs: operands may have any (multi-dimensional) shape with the right number of elements
            ishapes = [draw(st.sampled_from(_split(prod(t)))) for t in ishapes]
        ops = [tree(draw, t, dt, depth - 1, first if j == 0 else None) for j, t in enumerate(ishapes)]
        if k == 1:
            return ops[0]
        o0, _ = shape_of(ops[0])
        if draw(st.integers(0, 3)) == 0:
            return {"op": "Diag", "ops": ops, "oaxis": None, "iaxis": iaxis}
        ndo = len(o0)
        oaxis = draw(st.integers(-ndo, ndo - 1))
        targets = _vary_axis(draw, o0, oaxis % ndo, k)
        targets[0] = o0
        ops = [ops[0]] + [fit(draw, op, t) for op, t in zip(ops[1:], targets[1:])]
        return {"op": "Diag", "ops": ops, "oaxis": oaxis, "iaxis": iaxis}
    raise AssertionError(kind)


MIN_NDIM = {"MatMul": 2, "Sum": 2, "Sense": 2}
MAX_NDIM = {"Tile": 3, "Wavelet": 3, "Sense": 3}


@st.composite
def st_tree(draw, max_depth=2, dtypes=("complex128", "complex128", "complex64"), first_round_robin=True,
            min_dims=1, max_dims=3, max_in=MAX_IN, names=None, dim_hi=6, min_in=0):
    dt = draw(st.sampled_from(dtypes))
    first = None
    lo, hi = min_dims, max_dims
    if first_round_robin:
        # every leaf class appears often: the first (rightmost/deepest) leaf class is drawn uniformly
        first = [draw(st.sampled_from(names or ALL_LEAF_NAMES))]
        lo = max(lo, MIN_NDIM.get(first[0], 1))
        hi = min(max(hi, lo), MAX_NDIM.get(first[0], 9))
    s = st_shape(draw, lo, hi, max_in, dim_hi)
    j = 0
    while prod(s) < min_in and any(d < dim_hi for d in s) and j < 64:
        # grow axes in turn until the space is large enough (construction, not rejection)
        a = j % len(s)
        if s[a] < dim_hi and prod(s) // s[a] * (s[a] + 1) <= max_in:
            s[a] += 1
        j += 1
    depth = draw(st.integers(0, max_depth))
    sp = tree(draw, s, dt, depth, first)
    o, i = shape_of(sp)
    if prod(o) > MAX_OUT * 2 or prod(i) > MAX_IN * 2:
        sp = leaf_for(draw, s, dt, only=first)
    return {"tree": sp, "dtype": dt, "ct": draw(st.sampled_from(CONTAINERS))}


def children(sp):
    out = []
    for k in ("a", "b"):
        if k in sp and isinstance(sp[k], dict) and "op" in sp[k]:
            out.append(sp[k])
    out += sp.get("ops", [])
    return out


def subtrees(sp):
    """every node of the tree (pre-order)"""
    out = [sp]
    for c in children(sp):
        out += subtrees(c)
    return out


def localize(sp, fails):
    """Smallest failing subtree: descend while some child still fails `fails(spec) -> bool`."""
    cur = sp
    while True:
        nxt = None
        for c in children(cur):
            try:
                if fails(c):
                    nxt = c
                    break
            except Exception:
                continue
        if nxt is None:
            return cur
        cur = nxt


@st.composite
def st_mri(draw):
    dt = draw(st.sampled_from(["complex128", "complex128", "complex64"]))
    kind = draw(st.sampled_from(["Sense", "Sense", "ConvSense", "ConvImage", "Ptx"]))
    if kind == "Sense":
        nd = draw(st.integers(2, 3))
        s = [draw(st.integers(1, 4 if nd == 2 else 3)) for _ in range(nd)]
        sp = g_sense(draw, s, dt)
    elif kind in ("ConvSense", "ConvImage"):
        nd = draw(st.integers(1, 2))
        nc = draw(st.integers(1, 3))
        big = [draw(st.integers(2, 5)) for _ in range(nd)]
        small = [draw(st.integers(1, b)) for b in big]
        # valid-mode convolution: the image kernel is the larger array for ConvSense, either for ConvImage
        noncart = draw(st.booleans())
        out_grid = [b - s + 1 for b, s in zip(big, small)]
        coord = weights = grd = None
        if noncart:
            npts = draw(st.integers(1, 5))
            coord = _coord(draw, out_grid, [npts], ("in", "in", "out", "int"))
            grd = out_grid
            kshape = [nc, npts]
        else:
            kshape = [nc] + out_grid
        if draw(st.booleans()):
            n = prod(kshape)
            weights = {"k": "dy", "shape": kshape, "dtype": _real(dt), "re": [draw(st.integers(0, 9)) for _ in range(n)],
                       "im": None, "den": 4}
        if kind == "ConvSense":
            sp = {"op": "ConvSense", "img_ker_shape": big, "mps_ker": _arr_spec(draw, [nc] + small, dt),
                  "coord": coord, "weights": weights, "grd_shape": grd}
            if draw(st.integers(0, 3)) == 0:
                sp["comm"] = True
        else:
            sp = {"op": "ConvImage", "mps_ker_shape": [nc] + small, "img_ker": _arr_spec(draw, big, dt),
                  "coord": coord, "weights": weights, "grd_shape": grd}
    else:
        nd = draw(st.integers(2, 3))
        img = [draw(st.integers(1, 4 if nd == 2 else 3)) for _ in range(nd)]
        nc = draw(st.integers(1, 3))
        nt = draw(st.integers(1, 5))
        n = nt * nd
        coord = {"k": "dy", "shape": [nt, nd], "dtype": "float64", "re": [draw(st.integers(-24, 24)) for _ in range(n)],
                 "im": None, "den": 8}
        b0 = None
        if draw(st.booleans()):
            b0 = {"k": "g", "shape": img, "dtype": "float64", "seed": draw(A.seeds)}
        sp = {"op": "PtxSpatialExplicit", "sens": _arr_spec(draw, [nc] + img, "complex128"), "coord": coord,
              "dt": draw(st.sampled_from([4e-6, 1e-5, 1e-3])), "b0": b0}
        dt = "complex128"
    wrap = draw(st.sampled_from(["none", "none", "H", "scale", "conj"]))
    if wrap == "H":
        sp = {"op": "H", "a": sp}
    elif wrap == "scale":
        sp = {"op": "Scale", "a": sp, "s": st_scalar(draw, False), "side": "l"}
    elif wrap == "conj":
        sp = {"op": "Conj", "a": sp}
    return {"tree": sp, "dtype": dt}


def count_nodes(sp):
    n = 1
    for k in ("a", "b"):
        if k in sp and isinstance(sp[k], dict) and "op" in sp[k]:
            n += count_nodes(sp[k])
    for o in sp.get("ops", []):
        n += count_nodes(o)
    return n
