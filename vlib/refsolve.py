"""Certified dense reference solutions of small convex problems

    F(x) = 1/2 ||A x - y||^2 + g(G x) + lamda/2 ||x - z||^2 ,   g in {0, mu*||.||_1, mu/2*||.||^2, box[-b,b]}

The optimum value is bracketed by a primal value and a Fenchel dual value (weak duality), so the
reference certifies itself: F* in [D(w), F(x_ref)] (DESIGN 2.5).  All in complex128 / float64 numpy.
"""
import numpy as np


def prox_g(kind, par, t, v):
    """prox of t*g at v"""
    if kind is None or kind == "none":
        return v
    if kind == "l1":
        a = np.abs(v)
        with np.errstate(divide="ignore", invalid="ignore"):
            s = np.where(a > 0, v / np.where(a > 0, a, 1), 0)
        return s * np.maximum(a - t * par, 0)
    if kind == "l2":
        return v / (1 + t * par)
    if kind == "box":
        return np.clip(v.real, -par, par).astype(v.dtype) if np.iscomplexobj(v) else np.clip(v, -par, par)
    raise ValueError(kind)


def g_val(kind, par, v):
    if kind is None or kind == "none":
        return 0.0
    if kind == "l1":
        return par * float(np.sum(np.abs(v)))
    if kind == "l2":
        return par / 2 * float(np.linalg.norm(v) ** 2)
    if kind == "box":
        viol = float(np.max(np.maximum(np.abs(v.real) - par, 0), initial=0.0)) + float(np.max(np.abs(v.imag), initial=0.0))
        return 0.0 if viol <= 1e-7 else np.inf
    raise ValueError(kind)


def g_conj(kind, par, w):
    """(g*(w), w projected to dom g*)"""
    if kind is None or kind == "none":
        return 0.0, np.zeros_like(w)
    if kind == "l1":
        a = np.abs(w)
        wp = np.where(a > par, w * (par / np.where(a > 0, a, 1)), w)
        return 0.0, wp
    if kind == "l2":
        return float(np.linalg.norm(w) ** 2) / (2 * par), w
    if kind == "box":
        return par * float(np.sum(np.abs(w.real))), w.real.astype(w.dtype)
    raise ValueError(kind)


class Problem:
    def __init__(self, A, y, lamda=0.0, z=None, G=None, gkind=None, gpar=0.0):
        self.A = np.asarray(A)
        self.y = np.asarray(y).ravel()
        n = self.A.shape[1]
        self.n = n
        self.lamda = float(lamda)
        self.z = np.zeros(n, self.A.dtype) if z is None else np.asarray(z).ravel()
        self.G = np.eye(n, dtype=self.A.dtype) if G is None else np.asarray(G)
        self.gkind = gkind
        self.gpar = gpar
        self.H = self.A.conj().T @ self.A + self.lamda * np.eye(n)
        self.c = self.A.conj().T @ self.y + self.lamda * self.z

    def F(self, x):
        x = np.asarray(x).ravel()
        r = self.A @ x - self.y
        return (0.5 * float(np.linalg.norm(r) ** 2) + g_val(self.gkind, self.gpar, self.G @ x)
                + self.lamda / 2 * float(np.linalg.norm(x - self.z) ** 2))

    def f_smooth(self, x):
        r = self.A @ x - self.y
        return 0.5 * float(np.linalg.norm(r) ** 2) + self.lamda / 2 * float(np.linalg.norm(x - self.z) ** 2)

    def dual(self, w):
        """Fenchel dual value D(w) = -f*(-G^H w) - g*(w) <= F* (needs H nonsingular)."""
        gc, wp = g_conj(self.gkind, self.gpar, w)
        s = -(self.G.conj().T @ wp)
        xs = np.linalg.solve(self.H, s + self.c)
        fstar = float(np.real(np.vdot(xs, s))) - self.f_smooth(xs)
        gc, _ = g_conj(self.gkind, self.gpar, wp)
        return -fstar - gc

    def solve(self, iters=40000):
        """-> dict(x, w, hi, lo, gap, certified); a singular Hessian yields an uncertified result"""
        try:
            if np.linalg.cond(self.H) > 1e10:
                raise np.linalg.LinAlgError("ill-conditioned Hessian")
            return self._solve(iters)
        except np.linalg.LinAlgError:
            return {"x": np.zeros(self.n, self.A.dtype), "w": None, "hi": np.inf, "lo": -np.inf, "gap": np.inf, "certified": False}

    def _solve(self, iters):
        n = self.n
        G = self.G
        if self.gkind in (None, "none"):
            x = np.linalg.solve(self.H, self.c)
            hi = self.F(x)
            lo = self.dual(np.zeros(G.shape[0], self.A.dtype))
            return self._pack(x, hi, lo, np.zeros(G.shape[0], self.A.dtype))
        if self.gkind == "l2":
            x = np.linalg.solve(self.H + self.gpar * G.conj().T @ G, self.c)
            hi = self.F(x)
            lo = self.dual(self.gpar * (G @ x))
            return self._pack(x, hi, lo, self.gpar * (G @ x))
        best = None
        for rho in (1.0, 0.1, 10.0):
            K = np.linalg.inv(self.H + rho * G.conj().T @ G)
            v = np.zeros(G.shape[0], self.A.dtype)
            u = np.zeros(G.shape[0], self.A.dtype)
            x = np.zeros(n, self.A.dtype)
            for it in range(iters):
                x = K @ (self.c + rho * G.conj().T @ (v - u))
                Gx = G @ x
                v_new = prox_g(self.gkind, self.gpar, 1.0 / rho, Gx + u)
                u = u + Gx - v_new
                dv = np.linalg.norm(v_new - v)
                v = v_new
                if it % 25 == 0 and dv <= 1e-15 * (1 + np.linalg.norm(v)) and np.linalg.norm(Gx - v) <= 1e-15 * (1 + np.linalg.norm(v)):
                    break
            # a feasible primal point: for box, x must satisfy Gx in box; use x from v when G is invertible-ish
            hi = self.F(x)
            if not np.isfinite(hi):
                # pull x slightly towards feasibility: solve least squares G x = v
                xf = np.linalg.lstsq(G, v, rcond=None)[0]
                hi = self.F(xf)
                if np.isfinite(hi):
                    x = xf
            lo = self.dual(rho * u)
            res = self._pack(x, hi, lo, g_conj(self.gkind, self.gpar, rho * u)[1])
            if best is None or res["gap"] < best["gap"]:
                best = res
            if best["certified"]:
                break
        return best

    def _pack(self, x, hi, lo, w=None):
        scale = max(abs(hi), abs(lo), 1e-12)
        gap = hi - lo
        return {"x": x, "w": w, "hi": hi, "lo": lo, "gap": gap, "certified": bool(np.isfinite(hi) and gap <= 1e-8 * scale + 1e-13 and gap >= -1e-8 * scale - 1e-13)}
