#!/bin/sh
# Offline setup: third-party harness deps go to /verif/.deps (the /venv is left untouched).
set -e
cd "$(dirname "$0")"
export PIP_NO_INDEX=1
if [ ! -d .deps/hypothesis ] || [ ! -d .deps/jsonschema ]; then
  /venv/bin/python -m pip install --quiet --no-index --find-links /opt/veriftools/wheels \
      --target .deps hypothesis jsonschema atheris 2>&1 | tail -3 || true
fi
PYTHONPATH=.deps /venv/bin/python -c "import hypothesis, jsonschema; print('deps ok', hypothesis.__version__)"
mkdir -p out evidence .cache
