import hypothesis, os, sys, json
from hypothesis import given, settings, strategies as st, seed, Phase, HealthCheck
from hypothesis.stateful import RuleBasedStateMachine, rule, invariant, run_state_machine_as_test, precondition
N=int(sys.argv[1])
seen=[]
@seed(N)
@settings(max_examples=30, database=None, deadline=None, derandomize=False, report_multiple_bugs=False)
@given(st.lists(st.integers(0,100),max_size=4))
def t(xs): seen.append(xs)
t()
hist=[]
class M(RuleBasedStateMachine):
    def __init__(self): super().__init__(); self.n=0; hist.append([])
    @rule(k=st.integers(0,9))
    def a(self,k): self.n+=k; hist[-1].append(k)
    @invariant()
    def inv(self): assert self.n<10**9
run_state_machine_as_test(seed(N)(M), settings=settings(max_examples=10, stateful_step_count=5, database=None, deadline=None))
import hashlib
print(N, hashlib.sha1(json.dumps([seen,hist]).encode()).hexdigest()[:12], len(seen), len(hist))
