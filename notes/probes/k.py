import numpy as np, sigpy as sp
from sigpy import alg, prox
rng=np.random.default_rng(11); sp.thresh.soft_thresh(0.1,np.zeros(2)); sp.thresh.soft_thresh(0.1,np.zeros(2)+0j)
def cr(shape,cplx): 
    return rng.standard_normal(shape)+(1j*rng.standard_normal(shape) if cplx else 0)
# Problem: min_x 0.5||Ax-y||^2 + g(x), g in {0, l1, l2sq, box}; PDHG with f(v)=0.5||v-y||^2
def solve_ref(A,y,gkind,par,iters=200000):
    # high accuracy FISTA in numpy on dense A
    L=np.linalg.norm(A,2)**2; x=np.zeros(A.shape[1],dtype=y.dtype); z=x.copy(); t=1
    def pg(v,a):
        if gkind=='none': return v
        if gkind=='l1': return np.exp(1j*np.angle(v))*np.maximum(np.abs(v)-a*par,0) if np.iscomplexobj(v) else np.sign(v)*np.maximum(np.abs(v)-a*par,0)
        if gkind=='l2': return v/(1+a*par)
        if gkind=='box': return np.clip(v,-par,par)
    for i in range(iters):
        xo=x; x=pg(z-(A.conj().T@(A@z-y))/L,1/L); tn=(1+np.sqrt(1+4*t*t))/2; z=x+((t-1)/tn)*(x-xo); t=tn
        if i%50==0 and np.linalg.norm(x-xo)<1e-15*max(1,np.linalg.norm(x)): break
    return x
viol=0; maxratio=0
for trial in range(300):
    m,n=int(rng.integers(2,7)),int(rng.integers(1,6)); cplx=rng.random()<.5
    gkind=['none','l1','l2','box'][rng.integers(0,4)]
    if gkind=='box': cplx=False
    A=cr((m,n),cplx); y=cr(m,cplx); par=float(rng.uniform(0.05,1.0))
    if gkind=='none' and m<n: continue
    xs=solve_ref(A,y,gkind,par)
    us=A@xs-y   # dual optimum: u*=grad f(Ax*) 
    L=np.linalg.norm(A,2)
    arr=rng.random()<.4
    if arr:
        tau=rng.uniform(0.2,1.0,n); sigma=rng.uniform(0.2,1.0,m)
        s=np.linalg.norm(np.sqrt(sigma)[:,None]*A*np.sqrt(tau)[None,:],2); tau=tau/s*rng.uniform(0.5,1); sigma=sigma/s
    else:
        tau=float(rng.uniform(0.1,2)/L); sigma=float(rng.uniform(0.3,1.0)/(tau*L*L))
    pg={'none':prox.NoOp([n]),'l1':prox.L1Reg([n],par),'l2':prox.L2Reg([n],par),'box':prox.BoxConstraint([n],-par,par)}[gkind]
    pfc=prox.L2Reg([m],1,y=-y)
    x=cr(n,cplx).astype(y.dtype); u=cr(m,cplx).astype(y.dtype)
    a=alg.PrimalDualHybridGradient(pfc,pg,lambda v:A@v,lambda v:A.conj().T@v,x,u,tau,sigma,max_iter=10**6)
    def Mnorm(dx,du):
        return np.real(np.vdot(dx,dx/tau)+np.vdot(du,du/sigma)-2*np.vdot(A@dx,du))
    prev=None
    for it in range(300):
        xb=x.copy(); a.update()
        val=Mnorm(xb-xs,u-us)
        if prev is not None:
            r=(val-prev)/(abs(prev)+1e-30)
            if r>1e-9 and prev>1e-18: viol+=1; print('viol',gkind,arr,it,prev,val)
        prev=val
    err=np.linalg.norm(x-xs)/(np.linalg.norm(xs)+1e-12)
    maxratio=max(maxratio,err)
    # fixed point test
    x2=xs.copy(); u2=us.copy(); a2=alg.PrimalDualHybridGradient(pfc,pg,lambda v:A@v,lambda v:A.conj().T@v,x2,u2,tau,sigma,max_iter=10)
    a2.update(); a2.update()
    fp=max(np.abs(x2-xs).max(),np.abs(u2-us).max())
    if fp>1e-7: print('fixed point moved',gkind,fp)
print('violations',viol,'max rel err after 300 its',maxratio)
