import numpy as np, sigpy as sp
exec(open('e.py').read().split("worst={}")[0])
worst={}; worst2={}
for trial in range(600):
    ndim=int(rng.integers(1,4)); shp=[int(rng.integers(1,17 if ndim<3 else 9)) for _ in range(ndim)]
    b=[int(rng.integers(1,3))] if rng.random()<.3 else []
    x=rng.standard_normal(b+shp)+1j*rng.standard_normal(b+shp)
    if rng.random()<.3: x=x*0; x.flat[rng.integers(0,x.size)]=1   # delta
    if rng.random()<.2: x=np.ones_like(x)
    npts=int(rng.integers(16,64)); kind=rng.integers(0,4)
    c=rng.uniform(-0.5,0.5,(npts,ndim))*np.array(shp)
    if kind==1: c=np.round(c)
    if kind==2: c=c*4
    if kind==3: c=np.round(c*2)/2
    ref=ndft(x,c,ndim)
    for (os_,w) in [(1.25,4),(2,4),(2,6),(1.5,5),(1.25,3),(1.25,6),(2,3)]:
        y=sp.nufft(x,c,oversamp=os_,width=w)
        e=np.linalg.norm(y-ref)
        rel=e/np.linalg.norm(ref); rob=e/(np.sqrt(npts*max(1,np.prod(b)))*np.linalg.norm(x)/np.sqrt(max(1,np.prod(b))))
        key=(os_,w)
        if rel>worst.get(key,(0,))[0]: worst[key]=(rel,shp,b,npts,int(kind))
        if rob>worst2.get(key,(0,))[0]: worst2[key]=(rob,shp,b,npts,int(kind))
for k in sorted(worst, key=str): print(k,'rel',worst[k],'\n      rob',worst2[k])
