import numpy as np, sigpy as sp
from sigpy import alg, prox
rng=np.random.default_rng(13); sp.thresh.soft_thresh(0.1,np.zeros(2)); sp.thresh.soft_thresh(0.1,np.zeros(2)+0j)
def cr(shape,cplx): return rng.standard_normal(shape)+(1j*rng.standard_normal(shape) if cplx else 0)
worst=0; worst_noacc=0
for trial in range(300):
    m,n=int(rng.integers(2,8)),int(rng.integers(1,7)); cplx=rng.random()<.5
    A=cr((m,n),cplx); 
    if rng.random()<.5:  # ill-conditioned
        U,s,Vh=np.linalg.svd(A,full_matrices=False); s=s*np.logspace(0,-2,len(s)); A=(U*s)@Vh
    y=cr(m,cplx); gam=float(10**rng.uniform(-2,0.5))
    l1=float(rng.uniform(0,0.5)) if rng.random()<.5 else 0.0
    # g = gam/2||x||^2 + l1||x||_1 ; closed form impossible w/ l1 → reference by long prox-grad
    L=np.linalg.norm(A,2)
    def pgfun(v,a):
        v=v/(1+a*gam); a2=a/(1+a*gam)
        return np.exp(1j*np.angle(v))*np.maximum(np.abs(v)-a2*l1,0) if cplx else np.sign(v)*np.maximum(np.abs(v)-a2*l1,0)
    x=np.zeros(n,dtype=y.dtype)
    for i in range(200000):
        xo=x; x=pgfun(x-(A.conj().T@(A@x-y))/L**2,1/L**2)
        if np.linalg.norm(x-xo)<1e-16*max(1,np.linalg.norm(x)): break
    xs=x; us=A@xs-y
    tau0=float(rng.uniform(0.05,3)/L); sigma0=float(rng.uniform(0.3,1.0)/(tau0*L*L))
    pg=prox.L2Reg([n],gam,proxh=prox.L1Reg([n],l1) if l1>0 else None)
    pfc=prox.L2Reg([m],1,y=-y)
    for acc in (True,False):
        x=cr(n,cplx).astype(y.dtype); u=cr(m,cplx).astype(y.dtype); x0=x.copy(); u0=u.copy()
        a=alg.PrimalDualHybridGradient(pfc,pg,lambda v:A@v,lambda v:A.conj().T@v,x,u,tau0,sigma0,gamma_primal=gam if acc else 0,max_iter=10**6)
        C0=np.linalg.norm(x0-xs)**2/tau0**2+np.linalg.norm(u0-us)**2/(sigma0*tau0)
        for N in range(1,401):
            a.update()
            tauN=a.tau if acc else tau0
            ratio=np.linalg.norm(x-xs)**2/(tauN**2*C0+1e-300)
            if acc: 
                if np.linalg.norm(x-xs)>1e-12*(1+np.linalg.norm(xs)): worst=max(worst,ratio)
            else: worst_noacc=max(worst_noacc, np.linalg.norm(x-xs)**2/((tau0/(1+N*gam*tau0))**2*C0+1e-300) if np.linalg.norm(x-xs)>1e-12 else 0)
print('worst ratio accelerated',worst,' (non-accelerated vs same envelope)',worst_noacc)
