import numpy as np, sigpy as sp, collections
exec(open('h.py').read().split("worst=0")[0])
W=collections.defaultdict(float); R=collections.defaultdict(float)
for trial in range(4000):
    n=int(rng.integers(2,13)); cplx=rng.random()<.5; cond=10**rng.uniform(0,3)
    A=hpd(n,cond,cplx); xs=rng.standard_normal(n)+(1j*rng.standard_normal(n) if cplx else 0); b=A@xs
    x0=(rng.standard_normal(n)+(1j*rng.standard_normal(n) if cplx else 0))
    x=x0.copy().astype(b.dtype)
    cg=alg.ConjugateGradient(lambda v:A@v,b,x,max_iter=n+3)
    e0=np.sqrt(np.real(np.vdot(x0-xs,A@(x0-xs))))+1e-300
    bucket=min(int(np.floor(np.log10(cond)*2)),5)
    for k in range(1,n+1):
        if cg.done(): break
        cg.update()
        ref=krylov_opt(A,b,x0.astype(b.dtype),None,k)
        d=x-ref; dev=np.sqrt(np.real(np.vdot(d,A@d)))
        opt=np.sqrt(np.real(np.vdot(ref-xs,A@(ref-xs))))
        err=np.sqrt(np.real(np.vdot(x-xs,A@(x-xs))))
        W[(bucket,k)]=max(W[(bucket,k)],dev/e0)
        # ratio of err to opt err of step k-1 / k-2
        R[(bucket,k)]=max(R[(bucket,k)], dev/(opt+1e-14*e0))
for bkt in range(6):
    print('cond~10^%.1f'%(bkt/2),' '.join('%d:%.0e/%.0e'%(k,W[(bkt,k)],R[(bkt,k)]) for k in range(1,13)))
