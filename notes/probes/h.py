import numpy as np, sigpy as sp
from sigpy import alg
rng=np.random.default_rng(3)
def hpd(n,cond,cplx):
    Q=np.linalg.qr(rng.standard_normal((n,n))+(1j*rng.standard_normal((n,n)) if cplx else 0))[0]
    ev=np.exp(rng.uniform(0,np.log(cond),n)); ev[0]=1; 
    if n>1: ev[-1]=cond
    A=(Q*ev)@Q.conj().T; return (A+A.conj().T)/2
def krylov_opt(A,b,x0,P,k):
    # minimise ||x - x*||_A over x0 + K_k(PA, P r0), stable Arnoldi in A-inner product
    r0=b-A@x0; z=P@r0 if P is not None else r0
    V=[]; v=z.copy()
    for j in range(k):
        for _ in range(2):
            for u in V: v=v-u*(np.vdot(u,A@v))
        nv=np.sqrt(np.real(np.vdot(v,A@v)))
        if nv<1e-13*np.sqrt(np.real(np.vdot(z,A@z))+1e-300): break
        v=v/nv; V.append(v)
        v=(P@(A@v)) if P is not None else A@v
    x=x0.copy()
    for u in V: x=x+u*np.vdot(u,r0)   # A-orthonormal basis: coefficient = <u, A e0> = <u, r0>
    return x
worst=0
for trial in range(400):
    n=int(rng.integers(1,13)); cplx=rng.random()<.5; cond=10**rng.uniform(0,3)
    A=hpd(n,cond,cplx); xs=rng.standard_normal(n)+(1j*rng.standard_normal(n) if cplx else 0); b=A@xs
    x0=(rng.standard_normal(n)+(1j*rng.standard_normal(n) if cplx else 0)) if rng.random()<.7 else np.zeros(n,dtype=xs.dtype)
    P=hpd(n,10**rng.uniform(0,2),cplx) if rng.random()<.5 else None
    x=x0.copy().astype(b.dtype)
    cg=alg.ConjugateGradient(lambda v:A@v,b,x,P=(lambda v:P@v) if P is not None else None,max_iter=n+3)
    e0=np.sqrt(np.real(np.vdot(x0-xs,A@(x0-xs))))+1e-300
    prev=e0
    for k in range(1,n+1):
        if cg.done(): break
        cg.update()
        ref=krylov_opt(A,b,x0.astype(b.dtype),P,k)
        d=x-ref; dev=np.sqrt(np.real(np.vdot(d,A@d)))/e0
        rdev=np.linalg.norm(cg.r-(b-A@x))/(np.linalg.norm(b)+1e-300)
        e=np.sqrt(np.real(np.vdot(x-xs,A@(x-xs))))
        mono=(e-prev)/e0; prev=e
        worst=max(worst,dev)
        if dev>1e-7 or rdev>1e-9 or mono>1e-10: print('n',n,'k',k,'cond',cond,'dev',dev,'rdev',rdev,'mono',mono)
    fin=np.sqrt(np.real(np.vdot(x-xs,A@(x-xs))))/e0
    if fin>1e-6: print('final',n,cond,fin,cg.iter)
print('worst dev',worst)
