import numpy as np, sigpy as sp, collections
exec(open('h.py').read().split("worst=0")[0])
import scipy.linalg as sl
W=collections.defaultdict(float); F=collections.defaultdict(float)
for trial in range(1500):
    n=int(rng.integers(1,13)); cplx=rng.random()<.5; cond=10**rng.uniform(0,3)
    A=hpd(n,cond,cplx); xs=rng.standard_normal(n)+(1j*rng.standard_normal(n) if cplx else 0); b=A@xs
    x0=(rng.standard_normal(n)+(1j*rng.standard_normal(n) if cplx else 0))
    mode=rng.integers(0,3)
    if mode==0: P=None; ceff=cond
    elif mode==1: P=np.diag(1/np.real(np.diag(A))).astype(A.dtype)
    else: P=hpd(n,10**rng.uniform(0,1),cplx)
    if P is not None:
        L=np.linalg.cholesky(P); ev=np.linalg.eigvalsh(L.conj().T@A@L); ceff=ev.max()/ev.min()
    x=x0.copy().astype(b.dtype)
    cg=alg.ConjugateGradient(lambda v:A@v,b,x,P=(lambda v:P@v) if P is not None else None,max_iter=n+3)
    e0=np.sqrt(np.real(np.vdot(x0-xs,A@(x0-xs))))+1e-300
    bucket=int(np.floor(np.log10(ceff)))
    for k in range(1,n+1):
        if cg.done(): break
        cg.update()
        ref=krylov_opt(A,b,x0.astype(b.dtype),P,k)
        d=x-ref; dev=np.sqrt(np.real(np.vdot(d,A@d)))/e0
        W[(bucket,mode)]=max(W[(bucket,mode)],dev)
    fin=np.sqrt(np.real(np.vdot(x-xs,A@(x-xs))))/e0
    F[(bucket,mode)]=max(F[(bucket,mode)],fin)
for k in sorted(W): print(k,'dev %.2e'%W[k],'final %.2e'%F[k])
