import numpy as np, sigpy as sp, itertools
from fractions import Fraction as Fr
from scipy.special import i0
rng=np.random.default_rng(41)
def K(kind,par,t):
    t=float(t)
    if abs(t)>1: return 0.0
    if kind=='spline':
        if par==0: return 1.0
        if par==1: return 1-abs(t)
        return 9/8*(1-abs(t))**2 if abs(t)>1/3 else 3/4*(1-3*t*t)
    return float(i0(par*np.sqrt(1-t*t)))
def oracle(x,coord,kind,width,param):
    nd=coord.shape[-1]; g=x.shape[-nd:]; b=x.shape[:-nd]; xb=x.reshape((-1,)+g); c=coord.reshape(-1,nd)
    out=np.zeros((xb.shape[0],c.shape[0]),dtype=np.result_type(x,float))
    for j,cj in enumerate(c):
        rngs=[]
        for d in range(nd):
            cf=Fr(float(cj[d])); W=Fr(float(width[d]))
            lo=-((-(cf-W/2)).__floor__())  # ceil
            hi=(cf+W/2).__floor__()
            rngs.append([(i,K(kind,param[d],(Fr(i)-cf)/(W/2))) for i in range(lo,hi+1)])
        for combo in itertools.product(*rngs):
            w=np.prod([t[1] for t in combo]); idx=tuple(t[0]%g[d] for d,t in enumerate(combo))
            out[:,j]+=w*xb[(slice(None),)+idx]
    return out.reshape(b+coord.shape[:-1])
worst=0
for trial in range(300):
    nd=int(rng.integers(1,4)); g=[int(rng.integers(1,6)) for _ in range(nd)]; b=[2] if rng.random()<.3 else []
    x=(rng.integers(-8,9,b+g)+1j*rng.integers(-8,9,b+g))/4
    npts=int(rng.integers(1,6)); coord=rng.integers(-60,60,(npts,nd))/8.0
    if rng.random()<.3: coord[1:]=coord[:1]
    kind=['spline','kaiser_bessel'][rng.integers(0,2)]
    param=[float(rng.integers(0,3)) if kind=='spline' else float(rng.integers(2,40)/4) for _ in range(nd)]
    width=[float(rng.integers(2,25)/4) for _ in range(nd)]
    y=sp.interpolate(x,coord,kernel=kind,width=width,param=param)
    ref=oracle(x,coord,kind,width,param)
    sc=np.abs(ref).max()+1
    e=np.abs(y-ref).max()/sc; worst=max(worst,e)
    if e>(1e-12 if kind=='spline' else 1e-6): print('MISMATCH',kind,g,width,param,coord.tolist(),e)
    # gridding = transpose
    yy=(rng.integers(-8,9,b+[npts])+1j*rng.integers(-8,9,b+[npts]))/4
    gr=sp.gridding(yy,coord,b+g,kernel=kind,width=width,param=param)
    lhs=np.sum(gr*x); rhs=np.sum(yy*y)   # bilinear (no conj) since weights real
    if abs(lhs-rhs)>1e-9*(abs(lhs)+abs(rhs)+1): print('TRANSPOSE',kind,abs(lhs-rhs))
print('worst',worst)
# resize oracle
bad=0
for trial in range(2000):
    nd=int(rng.integers(1,4)); i=[int(rng.integers(1,8)) for _ in range(nd)]; o=[int(rng.integers(1,8)) for _ in range(nd)]
    x=np.arange(1,np.prod(i)+1).reshape(i); y=sp.resize(x,o); ref=np.zeros(o,int)
    for idx in np.ndindex(*o):
        src=tuple(t-m//2+n//2 for t,m,n in zip(idx,o,i))
        if all(0<=s<n for s,n in zip(src,i)): ref[idx]=x[src]
    bad+= not np.array_equal(y,ref)
print('resize mismatches',bad)
