import numpy as np, sigpy as sp, warnings, itertools, traceback, collections
from sigpy import linop
import sigpy.mri as mr
exec(open('c.py').read().split("T=150")[0])
import pywt
T=60
for t in range(T):
    # MatMul
    m,n,k=[int(v) for v in rng.integers(1,5,3)]
    bi=rshape(rng.integers(0,3)+0) if rng.random()<.7 else []
    bm=[ (b if rng.random()<.6 else 1) for b in bi]; 
    if rng.random()<.3: bm=bm[1:]
    bi2=[ (b if rng.random()<.7 else 1) for b in bi]
    try:
        A=linop.MatMul(bi2+[n,k],crandn(bm+[m,n])); r=check('MatMul',A)
        if r and r!='exc': print('MatMul',bi2+[n,k],bm+[m,n],r)
        A=linop.RightMatMul(bi2+[k,n],crandn(bm+[n,m])); r=check('RightMatMul',A)
        if r and r!='exc': print('RightMatMul',bi2+[k,n],bm+[n,m],r)
    except ValueError as e: excs['MatMulCtor:'+str(e)[:40]]+=1
    # Interp
    nd=int(rng.integers(1,4)); g=rshape(nd,1,6); b=rshape(rng.integers(1,3),1,3) if rng.random()<.5 else []
    pts=rshape(rng.integers(1,3),1,4)
    coord=rng.uniform(-8,8,size=pts+[nd])
    if rng.random()<.3: coord=np.round(coord*2)/2
    kern=['spline','kaiser_bessel'][rng.integers(0,2)]
    param=float(rng.integers(0,3)) if kern=='spline' else float(rng.uniform(1,12))
    width=float(rng.uniform(1,5)) if rng.random()<.5 else [float(rng.uniform(1,5)) for _ in range(nd)]
    r=check('Interpolate:'+kern,linop.Interpolate(b+g,coord,kernel=kern,width=width,param=param),tol=1e-9)
    if r and r!='exc': print('Interp',b+g,kern,width,param,r)
    r=check('Gridding:'+kern,linop.Gridding(b+g,coord,kernel=kern,width=width,param=param),tol=1e-9)
    # NUFFT
    g=rshape(nd,1,8); coord=rng.uniform(-6,6,size=pts+[nd])
    os_=float(rng.uniform(1.25,2)); w=float(rng.uniform(3,6)) if rng.random()<.5 else int(rng.integers(3,7))
    r=check('NUFFT',linop.NUFFT(b+g,coord,oversamp=os_,width=w),tol=1e-6)
    if r and r!='exc': print('NUFFT',b+g,pts,os_,w,r)
    # Wavelet
    s=rshape(None,1,9); nd2=len(s)
    wn=['haar','db2','db4','sym3','coif1'][rng.integers(0,5)]
    ax=None if rng.random()<.4 else sorted(set(int(a) for a in rng.choice(np.arange(nd2),size=rng.integers(1,nd2+1),replace=False)))
    lv=None if rng.random()<.4 else int(rng.integers(1,4))
    with warnings.catch_warnings():
        warnings.simplefilter('ignore')
        try:
            A=linop.Wavelet(s,axes=ax,wave_name=wn,level=lv)
            r=check('Wavelet',A,tol=1e-9)
            if r and r!='exc': print('Wavelet',s,ax,wn,lv,r)
            x=crandn(s); 
            if abs(np.linalg.norm(A(x))-np.linalg.norm(x))>1e-9*np.linalg.norm(x): print('Wavelet norm',s,ax,wn,lv)
            if np.abs(A.H(A(x))-x).max()>1e-9: print('Wavelet inv',s,ax,wn,lv)
        except Exception as e: excs['WaveletCtor:'+type(e).__name__+str(e)[:60]]+=1
    # blocks
    D=int(rng.integers(1,4)); N=rshape(D,1,7); B=[int(rng.integers(1,n+1)) for n in N]; S=[int(rng.integers(1,4)) for _ in N]
    bb=rshape(1,1,3) if rng.random()<.4 else []
    A=linop.ArrayToBlocks(bb+N,B,S); r=check('A2B',A)
    # conv
    D=int(rng.integers(1,3)); mc=rng.random()<.5
    mode=['full','valid'][rng.integers(0,2)]
    md=rshape(D,1,6); nf=[int(rng.integers(1,m+1)) for m in md] if mode=='valid' else rshape(D,1,4)
    st=None if rng.random()<.4 else [int(rng.integers(1,4)) for _ in range(D)]
    bb=rshape(1,1,3) if rng.random()<.5 else []
    ci,co=int(rng.integers(1,4)),int(rng.integers(1,4))
    dshape=bb+([ci] if mc else [])+md; fshape=([co,ci] if mc else [])+nf
    try:
        A=linop.ConvolveData(dshape,crandn(fshape),mode=mode,strides=st,multi_channel=mc); r=check('ConvData',A)
        if r and r!='exc': print('ConvData',dshape,fshape,mode,st,mc,r)
        A=linop.ConvolveFilter(fshape,crandn(dshape),mode=mode,strides=st,multi_channel=mc); r=check('ConvFilt',A)
        if r and r!='exc': print('ConvFilt',dshape,fshape,mode,st,mc,r)
    except ValueError as e: excs['ConvCtor:'+str(e)[:50]]+=1
print('OK',dict(ok)); print('FAILS',dict(fails)); 
for k,v in excs.items(): print('EXC',v,k)
