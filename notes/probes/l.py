import numpy as np, sigpy as sp
from sigpy import thresh
x=np.array([1.0,-2.0,0.3])
print('fresh real ->',thresh.soft_thresh(0.5,x).dtype)
print('complex ->',thresh.soft_thresh(0.5,x+0j).dtype)
print('real after complex ->',thresh.soft_thresh(0.5,x).dtype, thresh.soft_thresh(0.5,x))
print('float32 ->',thresh.soft_thresh(np.float32(0.5),x.astype(np.float32)).dtype)
print('hard real ->',thresh.hard_thresh(0.5,x).dtype)
print(thresh._soft_thresh.types)
