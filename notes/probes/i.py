import numpy as np, sigpy as sp, warnings
import sigpy.mri.rf as rf
from sigpy.mri.rf import slr, sim, optcont
rng=np.random.default_rng(5)
def resp(b,om):  # B(e^{i om}) = sum b_n e^{-i om n}
    n=np.arange(len(b)); return (b[None,:]*np.exp(-1j*om[:,None]*n[None,:])).sum(1)
# random complex polynomials
for trial in range(8):
    n=int(rng.integers(2,40)); b=rng.standard_normal(n)+1j*rng.standard_normal(n)
    om=np.linspace(-np.pi,np.pi,257)
    b=b/np.abs(resp(b,np.linspace(-np.pi,np.pi,4096))).max()*rng.uniform(0.1,0.95)
    p=slr.b2rf(b.copy())
    B=np.abs(resp(b,om))
    # hard pulse sim: gamgdt = ones*dphi, xx = om/dphi
    a1,b1=sim.abrm_hp(p,np.ones(n),om)
    a2,b2=optcont.blochsim(p,om,np.ones(n))
    a3,b3=sim.abrm(p,om*n/(2*np.pi))
    print(n,'max|B| %.2f'%B.max(),'hp %.1e'%np.abs(np.abs(b1)-B).max(),'bs %.1e'%np.abs(np.abs(b2)-B).max(),'abrm %.1e'%np.abs(np.abs(b3)-B).max(), 'maxflip %.2f'%np.abs(p).max())
print('--- dzrf')
for ptype in ['st','ex','se','inv','sat']:
  for ftype in ['ms','pm','min','max','ls']:
    n=64; tb=4
    with warnings.catch_warnings():
        warnings.simplefilter('ignore')
        try:
            p=slr.dzrf(n,tb,ptype,ftype,0.01,0.01)
        except Exception as e:
            print(ptype,ftype,'EXC',type(e).__name__,e); continue
    # get the b used: replicate
    bsf,d1,d2=slr.calc_ripples(ptype,0.01,0.01)
    bb={'ms':lambda:slr.msinc(n,tb/4),'pm':lambda:slr.dzlp(n,tb,d1,d2),'min':lambda:slr.dzmp(n,tb,d1,d2)[::-1],'max':lambda:slr.dzmp(n,tb,d1,d2),'ls':lambda:slr.dzls(n,tb,d1,d2)}[ftype]()
    bb=bsf*np.asarray(bb)
    om=np.linspace(-np.pi,np.pi,513)
    B=np.abs(resp(bb.astype(complex),om))
    if ptype=='st':
        print(ptype,ftype,'rf==b',np.abs(p-bb).max()); continue
    a1,b1=sim.abrm_hp(p,np.ones(len(p)),om)
    bf=B
    if B.max()>=1: bf=B/(1e-7+B.max())
    print(ptype,ftype,'len',len(p),'max|B| %.6f'%B.max(),'hp err %.1e'%np.abs(np.abs(b1)-bf).max())
