import numpy as np, sigpy as sp, warnings, itertools, traceback, collections
from sigpy import linop
rng=np.random.default_rng(1)
def crandn(shape): 
    shape=tuple(int(s) for s in shape); return rng.standard_normal(shape)+1j*rng.standard_normal(shape)
def rshape(nd=None,lo=1,hi=5):
    nd = nd or rng.integers(1,4); return [int(rng.integers(lo,hi+1)) for _ in range(nd)]
fails=collections.Counter(); excs=collections.Counter(); ok=collections.Counter()
def check(name,A,tol=1e-9):
    try:
        x=crandn(A.ishape); y=crandn(A.oshape)
        Ax=A(x); AHy=A.H(y)
        assert list(Ax.shape)==list(A.oshape),(Ax.shape,A.oshape)
        assert list(AHy.shape)==list(A.ishape)
        assert A.H.ishape==A.oshape and A.H.oshape==A.ishape
        l=np.vdot(Ax,y); r=np.vdot(x,AHy)
        sc=np.linalg.norm(Ax)*np.linalg.norm(y)+np.linalg.norm(x)*np.linalg.norm(AHy)+1e-300
        if abs(l-r)>tol*sc: fails[name]+=1; return ('adj',abs(l-r)/sc)
        AHHx=A.H.H(x)
        if np.abs(AHHx-Ax).max()>tol*(1+np.abs(Ax).max()): fails[name+':HH']+=1; return 'HH'
        # linearity
        a=complex(rng.standard_normal(),rng.standard_normal()); x2=crandn(A.ishape)
        d=np.abs(A(a*x+x2)-(a*Ax+A(x2))).max()
        if d>tol*(1+np.abs(Ax).max())*10: fails[name+':lin']+=1; return ('lin',d)
        N=A.N(x); d=np.abs(N-A.H(Ax)).max()
        if d>tol*(1+np.abs(N).max())*100: fails[name+':N']+=1; return ('N',d)
        ok[name]+=1
    except Exception as e:
        excs[name+':'+type(e).__name__+':'+str(e.__cause__ or e)[:80]]+=1
        return 'exc'
T=150
for t in range(T):
    s=rshape()
    nd=len(s)
    check('Identity',linop.Identity(s))
    # Reshape
    check('Transpose',linop.Transpose(s, axes=list(rng.permutation(nd)) if rng.random()<.7 else None))
    ax=None if rng.random()<.3 else list(rng.choice(np.arange(-nd,nd),size=rng.integers(1,nd+1),replace=False))
    # avoid duplicate axes mod nd
    if ax is not None and len(set(a%nd for a in ax))<len(ax): ax=None
    for c in (True,False):
        check('FFT',linop.FFT(s,axes=ax,center=c)); check('IFFT',linop.IFFT(s,axes=ax,center=c))
    # Multiply broadcasting
    ms=[ (si if rng.random()<.6 else 1) for si in s]; 
    if rng.random()<.3: ms=ms[1:] if len(ms)>1 else ms
    if rng.random()<.2: ms=[int(rng.integers(1,4))]+ms
    ish=[ (si if rng.random()<.7 else 1) for si in s]
    try:
        A=linop.Multiply(ish,crandn(ms))
        r=check('Multiply',A)
        if r and r!='exc': print('Multiply',ish,ms,r)
    except ValueError: pass
    check('MultiplyScalar',linop.Multiply(s, complex(rng.standard_normal(),rng.standard_normal())))
    # Resize
    o=[int(rng.integers(1,7)) for _ in s]
    check('Resize',linop.Resize(o,s))
    # Resize with shifts
    ishf=[int(rng.integers(0,si)) for si in s]; oshf=[int(rng.integers(0,oi)) for oi in o]
    r=check('ResizeShift',linop.Resize(o,s,ishift=ishf,oshift=oshf))
    if r and r!='exc': print('ResizeShift',s,o,ishf,oshf,r)
    r=check('ResizeIshift',linop.Resize(o,s,ishift=ishf))
    if r and r!='exc': print('ResizeIshift',s,o,ishf,r)
    check('Flip',linop.Flip(s,axes=ax))
    f=[int(rng.integers(1,4)) for _ in s]; sh=[int(rng.integers(0,min(fi,si))) for fi,si in zip(f,s)]
    r=check('Downsample',linop.Downsample(s,f,shift=sh))
    if r and r!='exc': print('Down',s,f,sh,r)
    check('Upsample',linop.Upsample(s,f,shift=sh))
    cax=list(rng.choice(np.arange(-nd,nd),size=rng.integers(1,nd+1),replace=False))
    check('Circshift',linop.Circshift(s,[int(rng.integers(-6,7)) for _ in cax],axes=cax))
    sax=list(rng.choice(np.arange(-nd,nd),size=rng.integers(1,nd+1),replace=False))
    if len(set(a%nd for a in sax))==len(sax):
        r=check('Sum',linop.Sum(s,sax)); 
        if r and r!='exc': print('Sum',s,sax,r)
        check('Tile',linop.Tile(s,sax))
    # Slice
    idx=tuple(slice(int(rng.integers(0,si)),None,int(rng.integers(1,3))) if rng.random()<.7 else slice(None) for si in s)
    check('Slice',linop.Slice(s,idx)); check('Embed',linop.Embed(s,idx))
    idx2=tuple(slice(None,None,-1) if rng.random()<.5 else int(rng.integers(0,si)) for si in s)
    r=check('SliceNegInt',linop.Slice(s,idx2))
    check('FiniteDifference',linop.FiniteDifference(s, axes=None if rng.random()<.5 else sax))
print('OK',dict(ok)); print('FAILS',dict(fails)); 
for k,v in excs.items(): print('EXC',v,k)
