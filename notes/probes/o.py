import numpy as np, sigpy as sp, warnings, pywt, collections
from sigpy import linop
import sigpy.mri.rf as rf
rng=np.random.default_rng(19)
print('== wavelets')
names=[w for fam in ['haar','db','sym','coif'] for w in pywt.wavelist(fam)]
print(len(names), names[:5], names[-3:])
bad=collections.Counter(); worst=collections.defaultdict(float)
with warnings.catch_warnings():
    warnings.simplefilter('ignore')
    for trial in range(1500):
        wn=names[rng.integers(0,len(names))]; nd=int(rng.integers(1,4)); s=[int(rng.integers(1,10)) for _ in range(nd)]
        ax=None if rng.random()<.4 else sorted(set(int(a) for a in rng.choice(np.arange(-nd,nd),size=rng.integers(1,nd+1),replace=False)))
        if ax is not None and len(set(a%nd for a in ax))<len(ax): ax=None
        lv=None if rng.random()<.4 else int(rng.integers(1,4))
        try:
            W=linop.Wavelet(s,axes=ax,wave_name=wn,level=lv)
            x=rng.standard_normal(s)+1j*rng.standard_normal(s); c=W(x)
            assert list(c.shape)==W.oshape
            e1=abs(np.linalg.norm(c)-np.linalg.norm(x))/np.linalg.norm(x); e2=np.abs(W.H(c)-x).max()/np.abs(x).max()
            y=rng.standard_normal(W.oshape)+1j*rng.standard_normal(W.oshape)
            e3=abs(np.vdot(c,y)-np.vdot(x,W.H(y)))/(np.linalg.norm(c)*np.linalg.norm(y))
            L=pywt.Wavelet(wn).dec_len
            k='len<=20' if L<=20 else ('len<=40' if L<=40 else 'len>40')
            worst[k]=max(worst[k],e1,e2,e3)
        except Exception as e:
            bad[type(e).__name__+':'+str(e.__cause__ or e)[:70]]+=1
            if bad.total()<4: print(' EXC',wn,s,ax,lv,type(e).__name__,e)
print(dict(worst)); print(dict(bad))
print('== trap')
viol=collections.Counter()
for trial in range(20000):
    area=10**rng.uniform(-6,0); gmax=10**rng.uniform(-1,1); dgdt=10**rng.uniform(2,5); dt=10**rng.uniform(-6,-4)
    for name,fn in [('trap',rf.trap_grad),('mintrap',rf.min_trap_grad)]:
        # limit size
        if area/gmax/dt>2e5 or (gmax/dgdt/dt)>2e5: continue
        try:
            t,rp=fn(area,gmax,dgdt,dt)
        except Exception as e:
            viol[name+':EXC:'+type(e).__name__]+=1; continue
        t=np.squeeze(t,0) if np.ndim(t)>1 else np.atleast_1d(t)
        if t[0]!=0 or t[-1]!=0: viol[name+':ends']+=1
        if t.max()>gmax*(1+1e-9): viol[name+':gmax']+=1
        if np.abs(np.diff(t)).max()/dt>dgdt*(1+1e-9): viol[name+':slew']+=1
        if name=='trap' and abs(t.sum()*dt-area)>1e-9*area: viol[name+':area']+=1
        if name=='mintrap':
            flat=t[rp+1:len(t)-rp-1]
            if abs(flat.sum()*dt-area)>1e-9*area: viol[name+':flatarea']+=1
print(dict(viol))
