import numpy as np, sigpy.mri.rf as rf, collections
from sigpy.mri.rf import slr, sim
rng=np.random.default_rng(37)
def resp(b,om):
    n=np.arange(len(b)); return (b[None,:]*np.exp(-1j*om[:,None]*n[None,:])).sum(1)
W=collections.defaultdict(float)
for trial in range(600):
    n=int(rng.integers(2,65)); kind=rng.integers(0,3)
    if kind==0: b=rng.standard_normal(n)+1j*rng.standard_normal(n)
    elif kind==1: b=(rng.standard_normal(n)+1j*rng.standard_normal(n))*np.hanning(n+2)[1:-1]
    else: b=np.sinc(np.linspace(-rng.uniform(1,4),rng.uniform(1,4),n))*np.hamming(n)+0j
    mx=np.abs(resp(b,np.linspace(-np.pi,np.pi,8192))).max()
    target=[0.5,0.9,0.95,0.98,0.99,0.995,0.999,0.9999][rng.integers(0,8)]
    b=b/mx*target
    p=slr.b2rf(b.copy()); om=np.linspace(-np.pi,np.pi,513)
    a1,b1=sim.abrm_hp(p,np.ones(n),om); e=np.abs(np.abs(b1)-np.abs(resp(b,om))).max()
    W[target]=max(W[target],e)
for k in sorted(W): print(k,'%.2e'%W[k], 'margin^0.5 %.2e'%np.sqrt(1-k))
