import sys, atheris
with atheris.instrument_imports(include=['sigpy.util','sigpy.linop','sigpy.conv']):
    import sigpy as sp
    from sigpy import util, linop, conv
import numpy as np
from hypothesis import given, settings, strategies as st, HealthCheck
n=[0]
@settings(database=None, deadline=None, suppress_health_check=list(HealthCheck))
@given(st.lists(st.tuples(st.integers(1,6),st.integers(1,6)),min_size=1,max_size=3))
def test(pairs):
    n[0]+=1
    ish=[p[0] for p in pairs]; osh=[p[1] for p in pairs]
    x=np.arange(1,np.prod(ish)+1,dtype=float).reshape(ish)
    y=util.resize(x,osh)
    # oracle
    ref=np.zeros(osh)
    for idx in np.ndindex(*osh):
        src=tuple(i - o//2 + n_//2 for i,o,n_ in zip(idx,osh,ish))
        if all(0<=s<n_ for s,n_ in zip(src,ish)): ref[idx]=x[src]
    assert np.array_equal(y,ref)
atheris.Setup(sys.argv, test.hypothesis.fuzz_one_input)
atheris.Fuzz()
