import numpy as np, sigpy as sp
exec(open('h.py').read().split("worst=0")[0])
def cg_ref(A,b,x0,k,dt):
    A=A.astype(dt); b=b.astype(dt); x=x0.astype(dt).copy(); r=b-A@x; p=r.copy(); rz=np.vdot(r,r).real
    for i in range(k):
        Ap=A@p; al=rz/np.vdot(p,Ap).real; x=x+al*p; r=r-al*Ap; rzn=np.vdot(r,r).real; p=r+(rzn/rz)*p; rz=rzn
    return x
bad=0
for trial in range(3000):
    n=int(rng.integers(6,13)); cond=10**rng.uniform(2,3)
    A=hpd(n,cond,False); xs=rng.standard_normal(n); b=A@xs; x0=rng.standard_normal(n)
    x=x0.copy(); cg=alg.ConjugateGradient(lambda v:A@v,b,x,max_iter=n+3)
    for k in range(n): cg.update()
    e0=np.sqrt((x0-xs)@A@(x0-xs)); fin=np.sqrt((x-xs)@A@(x-xs))/e0
    if fin>1e-4:
        bad+=1
        x64=cg_ref(A,b,x0,n,np.float64); xl=cg_ref(A,b,x0,n,np.longdouble)
        f64=np.sqrt((x64-xs)@A@(x64-xs))/e0; fl=np.sqrt(float((xl-xs)@A.astype(np.longdouble)@(xl-xs)))/e0
        ev=np.linalg.eigvalsh(A)
        if bad<=5: print('n',n,'cond %.0f'%cond,'sigpy %.2e'%fin,'np64 %.2e'%f64,'longdouble %.2e'%fl, 'min gap ratio %.2e'%np.min(np.diff(ev)/ev[1:]))
print('bad',bad)
