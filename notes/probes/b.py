import numpy as np, sigpy as sp, warnings
from sigpy import linop, thresh, prox, alg, app
import sigpy.mri.rf as rf
rng=np.random.default_rng(0)
def crandn(*s): return rng.standard_normal(s)+1j*rng.standard_normal(s)
print("== GS counter")
A=linop.MatMul([4,1], crandn(6,4)); y=np.abs(A(crandn(4,1)))
g=alg.GerchbergSaxton(A,y,crandn(4,1),max_iter=10); n=0
while not g.done(): g.update(); n+=1
print(' updates',n,'iter',g.iter)
print("== PDHG early stop")
M=rng.standard_normal((6,4)); A=linop.MatMul([4,1],M); xt=np.array([[1.],[0],[0],[2.]]); y=M@xt
ap=app.LinearLeastSquares(A,y,proxg=prox.L1Reg([4,1],0.1),solver='PrimalDualHybridGradient',sigma=1e-3,max_iter=2000,show_pbar=False)
x=ap.run(); print(' iters',ap.alg.iter,'x',x)
ap=app.LinearLeastSquares(A,y,proxg=prox.L1Reg([4,1],0.1),solver='GradientMethod',max_iter=2000,show_pbar=False)
x2=ap.run(); print(' GM x',x2, ap.alg.iter)
print("== PDHG G lamda")
G=linop.MatMul([4,1],rng.standard_normal((4,4))); z=rng.standard_normal((4,1)); lam=0.7; mu=0.3
def obj(x): return 0.5*np.linalg.norm(M@x-y)**2+mu*np.abs(G(x)).sum()+lam/2*np.linalg.norm(x-z)**2
res={}
for solver in ['PrimalDualHybridGradient','ADMM']:
    np.random.seed(0)
    try:
        ap=app.LinearLeastSquares(A,y.copy(),proxg=prox.L1Reg([4,1],mu),G=G,lamda=lam,z=z,solver=solver,max_iter=5000,show_pbar=False)
        x=ap.run(); res[solver]=x; print(' ',solver,obj(x),ap.alg.iter)
    except Exception as e: print(' ',solver,'EXC',type(e).__name__,e, e.__cause__)
G2=linop.FiniteDifference([4,1])
for solver in ['PrimalDualHybridGradient','ADMM']:
    np.random.seed(0)
    try:
        ap=app.LinearLeastSquares(A,y.copy(),proxg=prox.L1Reg(G2.oshape,mu),G=G2,lamda=lam,z=z,solver=solver,max_iter=5000,show_pbar=False)
        x=ap.run(); print(' FD',solver,0.5*np.linalg.norm(M@x-y)**2+mu*np.abs(G2(x)).sum()+lam/2*np.linalg.norm(x-z)**2)
    except Exception as e: print(' FD',solver,'EXC',type(e).__name__,e, e.__cause__)
print("== ADMM Identity y mutation")
I=linop.Identity([4,1]); y0=rng.standard_normal((4,1)); yy=y0.copy()
ap=app.LinearLeastSquares(I,yy,proxg=prox.L1Reg(G2.oshape,mu),G=G2,solver='ADMM',max_iter=50,show_pbar=False); x=ap.run()
print(' y mutated', not np.array_equal(yy,y0), np.abs(yy-y0).max())
yy=y0.copy(); ap=app.LinearLeastSquares(I,yy,lamda=0.5,z=z,show_pbar=False); x=ap.run(); print(' CG y mutated', not np.array_equal(yy,y0), 'x ok', np.abs(x-(y0+0.5*z)/1.5).max())
print("== min_trap_grad tiny area")
try:
    t,r=rf.min_trap_grad(1e-6,1.0,1e5,1e-4); print(t.shape)
except Exception as e: print(' EXC',type(e).__name__,e)
t,r=rf.trap_grad(1e-6,1.0,1e5,1e-4); print(' trap', t, r)
