import numpy as np, sigpy as sp, warnings
from sigpy import linop, thresh, prox
import sigpy.mri as mr
rng=np.random.default_rng(0)
def crandn(*s): return rng.standard_normal(s)+1j*rng.standard_normal(s)
print("== 1 get_cov mutates")
n=crandn(3,4,5); n0=n.copy(); mr.util.get_cov(n); print(' mutated:', not np.array_equal(n,n0))
print("== 2 ArrayToBlocks normal")
A=linop.ArrayToBlocks([6],[3],[1]); x=crandn(6); print(' N vs HA', np.abs(A.N(x)-A.H(A(x))).max())
B=linop.BlocksToArray([6],[2],[2]); y=crandn(*B.ishape); print(' B2A tiling N vs HA', np.abs(B.N(y)-B.H(B(y))).max())
B=linop.BlocksToArray([6],[3],[1]); y=crandn(*B.ishape); print(' B2A overlap N vs HA', np.abs(B.N(y)-B.H(B(y))).max())
print("== 3 l1_proj shape, psd_proj")
x=np.array([[0.1,0.2],[0.0,-0.1]]); print(' l1_proj shape', thresh.l1_proj(1.0,x).shape)
try:
    print(prox.L1Proj([2,2],1.0)(1.0,x).shape)
except Exception as e: print(' L1Proj raises', type(e).__name__, e.__cause__)
Q,_=np.linalg.qr(rng.standard_normal((4,4))); M=Q@np.diag([2.,2.,2.,-1.])@Q.T
P=thresh.psd_proj(M); ref=Q@np.diag([2.,2.,2.,0.])@Q.T; print(' psd err real rep', np.abs(P-ref).max())
Qc,_=np.linalg.qr(crandn(4,4)); M=Qc@np.diag([2.,2.,-1.,-1.])@Qc.conj().T
P=thresh.psd_proj(M); ref=Qc@np.diag([2.,2.,0,0])@Qc.conj().T; print(' psd err cplx rep', np.abs(P-ref).max())
M=np.eye(3)*2.0; M[0,1]=M[1,0]=0; print(' psd eye', np.abs(thresh.psd_proj(M)-M).max())
# matrix of all ones: eigenvalues 3,0,0
M=np.ones((3,3)); print(' psd ones', np.abs(thresh.psd_proj(M)-M).max())
M=np.ones((4,4))-2*np.eye(4); w,v=np.linalg.eigh(M); ref=(v*np.maximum(w,0))@v.T; print(' psd ones-2I', np.abs(thresh.psd_proj(M)-ref).max())
print("== 8 negative axis stack")
I1=linop.Identity([2,3]); I2=linop.Identity([2,3])
for ax in [0,1,-1,-2,None]:
    try:
        H=linop.Hstack([I1,I2],axis=ax); print(' Hstack axis',ax,'ishape',H.ishape, 'oshape', H.oshape)
        x=crandn(*H.ishape); print('   out', H(x).shape)
    except Exception as e: print(' Hstack axis',ax,'EXC',type(e).__name__,e)
for ax in [0,1,-1,-2,None]:
    try:
        V=linop.Vstack([I1,I2],axis=ax); print(' Vstack axis',ax,'oshape',V.oshape)
        x=crandn(*V.ishape); print('   out', V(x).shape)
    except Exception as e: print(' Vstack axis',ax,'EXC',type(e).__name__,e)
print("== 9 transpose negative axes")
T=linop.Transpose([2,3,4],axes=(-1,0,1)); x=crandn(2,3,4); y=crandn(*T.oshape)
try:
    print(' adj err', abs(np.vdot(T(x),y)-np.vdot(x,T.H(y))))
except Exception as e: print(' EXC', type(e).__name__, e, e.__cause__)
print("== 10 Vstack dtype")
mps=crandn(2,4,4); S=mr.linop.Sense(mps); Sb=mr.linop.Sense(mps,coil_batch_size=1); xr=rng.standard_normal((4,4))
with warnings.catch_warnings(record=True) as w:
    warnings.simplefilter('always')
    a=S(xr); b=Sb(xr); print(' dtypes', a.dtype,b.dtype,' diff',np.abs(a-b).max(), [str(i.category.__name__) for i in w])
print("== 11 conv valid filter longer")
import sigpy.conv as cv
for m,n,s in [(3,5,1),(3,4,2),(3,5,3),(3,3,1),(5,3,2)]:
    d=crandn(m); f=crandn(n)
    try:
        o=sp.convolve(d,f,mode='valid',strides=[s]); print(' m,n,s',m,n,s,'->',o.shape)
    except Exception as e: print(' m,n,s',m,n,s,'EXC',type(e).__name__,e)
