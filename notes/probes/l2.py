import numpy as np, sigpy as sp
from sigpy import thresh
x=np.array([1.0,-2.0,0.3])
print('complex first ->',thresh.soft_thresh(0.5,x+0j).dtype)
print('real after complex ->',thresh.soft_thresh(0.5,x).dtype)
print(thresh._soft_thresh.types)
