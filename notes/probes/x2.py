import numpy as np, sigpy as sp
from sigpy import alg, prox
rng=np.random.default_rng(53); sp.thresh.soft_thresh(0.1,np.zeros(2)); sp.thresh.soft_thresh(0.1,np.zeros(2)+0j)
big=0; shown=0
for trial in range(20000):
    n=int(rng.integers(1,4)); m=int(rng.integers(1,4))
    A=rng.integers(-3,4,(m,n))/2.0; y=rng.integers(-4,5,m)/2.0
    L=np.linalg.norm(A,2)**2
    if L==0: continue
    alpha=1/L*float(rng.choice([1,0.5,1.5]))
    kind=rng.integers(0,2); par=float(rng.choice([0.25,0.5,1,2]))
    pg=prox.L1Reg([n],par) if kind==0 else prox.BoxConstraint([n],-par,par)
    x=rng.integers(-6,7,n)/2.0
    if kind==1: x=np.clip(x,-par,par)
    x0=x.copy()
    gradf=lambda v:A.T@(A@v-y)
    g=alg.GradientMethod(gradf,x,alpha,proxg=pg,accelerate=True,max_iter=30,tol=0)
    while not g.done(): g.update()
    if g.iter<30:
        it=g.iter; xs=x.copy(); g.update(); rel=np.abs(xs-x).max()/(1+np.abs(x).max())
        if rel>1e-9:
            big+=1
            if shown<4:
                shown+=1; print('A',A.tolist(),'y',y.tolist(),'alpha*L',alpha*L,'g',['l1','box'][kind],par,'x0',x0.tolist(),'stopped after',it,'x',xs.tolist(),'next',x.tolist())
print('macroscopic non-fixed early stops',big)
