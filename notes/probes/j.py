import numpy as np, sigpy as sp, time
import sigpy.mri as mr
rng=np.random.default_rng(7)
def smooth_maps(nc,shape,order=2):
    grids=np.meshgrid(*[np.linspace(-1,1,n) for n in shape],indexing='ij')
    mps=np.zeros((nc,)+tuple(shape),complex)
    for c in range(nc):
        ctr=rng.uniform(-1.5,1.5,len(shape)); ph=rng.uniform(-1,1,len(shape)+1)
        r2=sum((g-c0)**2 for g,c0 in zip(grids,ctr))
        mps[c]=np.exp(-r2/ rng.uniform(1.5,4))*np.exp(1j*(ph[0]+sum(p*g for p,g in zip(ph[1:],grids))))
    return mps
for trial in range(12):
    nd=2 if trial<9 else 3
    n=16 if nd==2 else 12
    shape=[n+int(rng.integers(0,5))]*1+[n]*(nd-1)
    nc=int(rng.integers(2,9))
    if trial%3==0: mps=mr.birdcage_maps([nc]+shape)
    else: mps=smooth_maps(nc,shape)
    img=rng.standard_normal(shape)+1j*rng.standard_normal(shape)
    ksp=sp.fft(mps*img,axes=range(-nd,0))
    cw=int(rng.integers(8,min(shape)+1)); kw=int(rng.integers(3,7)); 
    t=time.time()
    try:
        m,ev=mr.app.EspiritCalib(ksp,calib_width=cw,kernel_width=kw,crop=0.9,output_eigenvalue=True,show_pbar=False).run()
    except Exception as e:
        print('EXC',type(e).__name__,e, shape,nc,cw,kw); continue
    dt=time.time()-t
    nrm=np.sqrt((np.abs(m)**2).sum(0)); 
    unit=np.abs(nrm-1)<1e-6; zero=(nrm==0)
    ref=np.abs(mps)/np.sqrt((np.abs(mps)**2).sum(0))
    sl=tuple(slice(s//4,s-s//4) for s in shape)
    err=np.abs(np.abs(m)-ref)[(slice(None),)+sl]
    keep=(nrm>0)[sl]
    print(trial,shape,'nc',nc,'cw',cw,'kw',kw,'unit|zero all',bool((unit|zero).all()),'zero frac %.2f'%zero.mean(),'ev range %.4f %.6f'%(ev.real.min(),ev.real.max()),'coil0 imag %.1e'%np.abs(m[0].imag).max(),'min real %.1e'%m[0].real.min(),'interior err %.1e'%(err[:,keep].max() if keep.any() else -1),'t %.2f'%dt)
