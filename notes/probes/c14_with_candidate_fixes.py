import sys; sys.path.insert(0,'/tmp/sp_fix')
import numpy as np, sigpy as sp, collections, time, warnings
from sigpy import linop, prox, app
rng=np.random.default_rng(101)
def cr(shape,cplx): return rng.standard_normal(shape)+(1j*rng.standard_normal(shape) if cplx else 0)
def soft(v,t):
    a=np.abs(v); return np.where(a>0, v/np.maximum(a,1e-300),0)*np.maximum(a-t,0)
def dense(L):
    n=int(np.prod(L.ishape)); cols=[]
    for j in range(n):
        e=np.zeros(n,complex); e[j]=1; cols.append(L(e.reshape(L.ishape)).ravel())
    return np.array(cols).T
def ref(Am,y,Gm,gk,mu,lam,z,box):
    # ADMM dense: min .5||Ax-y||^2+lam/2||x-z||^2+g(v), Gx=v
    n=Am.shape[1]; rho=1.0; v=np.zeros(Gm.shape[0],complex); u=v.copy()
    H=Am.conj().T@Am+lam*np.eye(n)
    rhs0=Am.conj().T@y+lam*z
    for it in range(200000):
        x=np.linalg.lstsq(H+rho*Gm.conj().T@Gm, rhs0+rho*Gm.conj().T@(v-u), rcond=None)[0]
        w=Gm@x+u
        if gk=='none': vn=w
        elif gk=='l1': vn=soft(w,mu/rho)
        elif gk=='l2': vn=w/(1+mu/rho)
        elif gk=='box': vn=np.clip(w.real,-box,box)+0j
        s=np.linalg.norm(vn-v); v=vn; u=u+Gm@x-v; r=np.linalg.norm(Gm@x-v)
        if r<1e-12*(1+np.linalg.norm(v)) and s<1e-12*(1+np.linalg.norm(v)): break
    return x
def Fobj(Am,y,Gm,gk,mu,lam,z,box,x):
    x=x.ravel(); f=0.5*np.linalg.norm(Am@x-y)**2+lam/2*np.linalg.norm(x-z)**2; g=Gm@x
    if gk=='l1': f+=mu*np.abs(g).sum()
    if gk=='l2': f+=mu/2*np.linalg.norm(g)**2
    if gk=='box': 
        viol=np.maximum(np.abs(g.real)-box,0).max(); 
        return f, viol
    return f,0.0
stats=collections.defaultdict(list)
for trial in range(120):
    n=int(rng.integers(2,6)); m=int(rng.integers(n,n+4)); cplx=bool(rng.random()<.5)
    gk=['none','l1','l2','box'][rng.integers(0,4)]
    if gk=='box': cplx=False
    Ak=['dense','identity','diag'][rng.integers(0,3)]
    if Ak=='dense':
        M=cr((m,n),cplx); U,s,Vh=np.linalg.svd(M,full_matrices=False); s=np.linspace(1,1/rng.uniform(1,30),len(s)); M=(U*s)@Vh; A=linop.MatMul([n,1],M); ysh=[m,1]
    elif Ak=='identity': A=linop.Identity([n,1]); ysh=[n,1]
    else: A=linop.Multiply([n,1],cr((n,1),cplx)); ysh=[n,1]
    y=cr(ysh,cplx); lam=float(rng.uniform(0.1,1)) if rng.random()<.5 else 0
    zopt=rng.integers(0,2); z=cr((n,1),cplx) if zopt else None
    Gk=['none','dense','fd'][rng.integers(0,3)] if gk!='none' else 'none'
    if Gk=='dense': k=int(rng.integers(n-1,n+2)); G=linop.MatMul([n,1],cr((k,n),cplx))
    elif Gk=='fd': G=linop.FiniteDifference([n,1],axes=[0])
    else: G=None
    gshape=G.oshape if G is not None else [n,1]
    mu=float(rng.uniform(0.05,0.8)); box=float(rng.uniform(0.2,1.5))
    pg={'none':None,'l1':prox.L1Reg(gshape,mu),'l2':prox.L2Reg(gshape,mu),'box':prox.BoxConstraint(gshape,-box,box)}[gk]
    Am=dense(A); Gm=dense(G) if G is not None else np.eye(n,dtype=complex)
    zz=(z.ravel() if z is not None else np.zeros(n)).astype(complex)
    xr=ref(Am,y.ravel().astype(complex),Gm,gk,mu,lam,zz,box); Fs,_=Fobj(Am,y.ravel(),Gm,gk,mu,lam,zz,box,xr)
    F0,_=Fobj(Am,y.ravel(),Gm,gk,mu,lam,zz,box,np.zeros(n))
    for solver,iters in [('ConjugateGradient',n+2),('GradientMethod',5000),('PrimalDualHybridGradient',30000),('ADMM',5000)]:
        if solver=='ConjugateGradient' and gk!='none': continue
        if solver=='GradientMethod' and G is not None: continue
        np.random.seed(trial)
        t=time.time()
        try:
            with warnings.catch_warnings():
                warnings.simplefilter('ignore')
                x=app.LinearLeastSquares(A,y.copy(),proxg=pg,G=G,lamda=lam,z=z,solver=solver,max_iter=iters,show_pbar=False).run()
        except Exception as e:
            stats[(solver,'EXC')].append((type(e).__name__,str(e.__cause__ or e)[:60],gk,Gk,Ak)); continue
        F,viol=Fobj(Am,y.ravel(),Gm,gk,mu,lam,zz,box,x)
        gap=(F-Fs)/max(F0-Fs,abs(Fs),1e-9)
        stats[(solver,'gap')].append((gap,viol,gk,Gk,Ak,lam>0,time.time()-t))
for k,v in stats.items():
    if k[1]=='gap':
        g=np.array([t[0] for t in v]); print(k[0],'n',len(v),'max gap %.2e'%g.max(),'min %.2e'%g.min(),'max viol %.1e'%max(t[1] for t in v),'mean t %.2f'%np.mean([t[-1] for t in v]))
        for t in sorted(v,key=lambda t:-t[0])[:3]: print('    worst',t)
    else:
        print(k[0],'EXC',len(v),collections.Counter(v).most_common(4))
