import numpy as np, sigpy as sp
from sigpy import alg, prox
rng=np.random.default_rng(29); sp.thresh.soft_thresh(0.1,np.zeros(2)); sp.thresh.soft_thresh(0.1,np.zeros(2)+0j)
def cr(shape,cplx): return rng.standard_normal(shape)+(1j*rng.standard_normal(shape) if cplx else 0)
def soft(v,t): 
    a=np.abs(v); return np.where(a>0, v/np.maximum(a,1e-300),0)*np.maximum(a-t,0)
def ref_solve(A,y,gk,par,z):
    L=np.linalg.norm(A,2)**2; n=A.shape[1]; x=np.zeros(n,dtype=np.result_type(A,y)); zz=x.copy(); t=1
    def pg(v,a):
        if gk=='none': return v
        if gk=='l1': return soft(v,a*par)
        if gk=='l2': return (v+a*par*z)/(1+a*par)
        if gk=='box': return np.clip(v,-par,par)
    for i in range(400000):
        xo=x; x=pg(zz-(A.conj().T@(A@zz-y))/L,1/L); tn=(1+np.sqrt(1+4*t*t))/2; zz=x+((t-1)/tn)*(x-xo); t=tn
        if i%100==0 and np.linalg.norm(pg(x-(A.conj().T@(A@x-y))/L,1/L)-x)<1e-15*max(1,np.linalg.norm(x)): break
    return x
def F(A,y,gk,par,z,x):
    v=0.5*np.linalg.norm(A@x-y)**2
    if gk=='l1': v+=par*np.abs(x).sum()
    if gk=='l2': v+=par/2*np.linalg.norm(x-z)**2
    return v
viol=0; wr=[0,0]; strong_viol=0; worst_strong=0
for trial in range(250):
    m,n=int(rng.integers(2,8)),int(rng.integers(1,7)); cplx=rng.random()<.5
    gk=['none','l1','l2','box'][rng.integers(0,4)]
    if gk=='box': cplx=False
    A=cr((m,n),cplx)
    if rng.random()<.5:
        U,s,Vh=np.linalg.svd(A,full_matrices=False); s=s*np.logspace(0,-rng.uniform(0,2),len(s)); A=(U*s)@Vh
    y=cr(m,cplx); par=float(rng.uniform(0.05,1.0)); z=cr(n,cplx)
    xs=ref_solve(A,y,gk,par,z); Fs=F(A,y,gk,par,z,xs)
    L=np.linalg.norm(A,2)**2; c=float(rng.uniform(0.2,1)) if rng.random()<.5 else 1.0; alpha=c/L
    pgd={'none':None,'l1':prox.L1Reg([n],par),'l2':prox.L2Reg([n],par,y=z),'box':prox.BoxConstraint([n],-par,par)}[gk]
    for acc in (False,True):
        x=cr(n,cplx).astype(np.result_type(A,y)); 
        if gk=='box': x=np.clip(x,-par,par)
        x0=x.copy(); d0=np.linalg.norm(x0-xs)**2
        g=alg.GradientMethod(lambda v:A.conj().T@(A@v-y),x,alpha,proxg=pgd,accelerate=acc,max_iter=10**6)
        Fprev=F(A,y,gk,par,z,x); sc=abs(Fs)+Fprev
        for k in range(1,301):
            g.update(); Fk=F(A,y,gk,par,z,x)
            if not acc and Fk>Fprev+1e-10*sc: viol+=1; print('mono',gk,k,Fk-Fprev)
            Fprev=Fk
            b=d0/(2*alpha*k) if not acc else 2*d0/(alpha*(k+1)**2)
            if Fk-Fs>b+1e-9*sc: viol+=1; print('bound',gk,acc,k,Fk-Fs,b)
            if Fk-Fs>1e-10*sc: wr[acc]=max(wr[acc],(Fk-Fs)/b)
    # PDHG strong inequality
    Lq=np.linalg.norm(A,2)
    tau=float(rng.uniform(0.1,2)/Lq); sigma=float(rng.uniform(0.3,1.0)/(tau*Lq*Lq))
    pg2={'none':prox.NoOp([n]),'l1':prox.L1Reg([n],par),'l2':prox.L2Reg([n],par,y=z),'box':prox.BoxConstraint([n],-par,par)}[gk]
    pfc=prox.L2Reg([m],1,y=-y); us=A@xs-y
    x=cr(n,cplx).astype(np.result_type(A,y)); u=cr(m,cplx).astype(np.result_type(A,y))
    a=alg.PrimalDualHybridGradient(pfc,pg2,lambda v:A@v,lambda v:A.conj().T@v,x,u,tau,sigma,max_iter=10**6)
    def Mn(dx,du): return np.real(np.vdot(dx,dx)/tau+np.vdot(du,du)/sigma-2*np.vdot(A@dx,du))
    prev=None; w0=None; minres=np.inf
    for it in range(200):
        xb=x.copy(); a.update(); w=(xb,u.copy())
        val=Mn(w[0]-xs,w[1]-us)
        if prev is not None:
            dec=Mn(w[0]-wprev[0],w[1]-wprev[1])
            lhs=val; rhs=prev-dec
            if lhs>rhs+1e-9*(abs(v0)+1e-30): strong_viol+=1; worst_strong=max(worst_strong,(lhs-rhs)/v0)
            minres=min(minres,dec)
            if minres>v0/it*(1+1e-9)+1e-12: print('rate viol',it,minres,v0/it)
        else: v0=val
        prev=val; wprev=w
print('GM violations',viol,'worst ratio ISTA %.3f FISTA %.3f'%tuple(wr)); print('PDHG strong viol',strong_viol,worst_strong)
