import numpy as np, sigpy as sp
from sigpy import alg, prox
exec(open('r.py').read().split("viol=0; wr=")[0])
worst=0; worstx=0
for trial in range(300):
    m,n=int(rng.integers(2,8)),int(rng.integers(1,7)); cplx=rng.random()<.5
    gk=['none','l1','box'][rng.integers(0,3)]
    if gk=='box': cplx=False
    if gk=='none' and m<n: continue
    A=cr((m,n),cplx)
    if rng.random()<.5:
        U,s,Vh=np.linalg.svd(A,full_matrices=False); s=s*np.logspace(0,-rng.uniform(0,1.5),len(s)); A=(U*s)@Vh
    y=cr(m,cplx); par=float(rng.uniform(0.05,1.0)); z=None
    xs=ref_solve(A,y,gk,par,z); us=A@xs-y
    Lq=np.linalg.norm(A,2)
    sigma0=float(rng.uniform(0.05,3)/Lq); tau0=float(rng.uniform(0.3,1.0)/(sigma0*Lq*Lq))
    pg2={'none':prox.NoOp([n]),'l1':prox.L1Reg([n],par),'box':prox.BoxConstraint([n],-par,par)}[gk]
    pfc=prox.L2Reg([m],1,y=-y)
    x=cr(n,cplx).astype(np.result_type(A,y)); u=cr(m,cplx).astype(np.result_type(A,y)); x0=x.copy(); u0=u.copy()
    a=alg.PrimalDualHybridGradient(pfc,pg2,lambda v:A@v,lambda v:A.conj().T@v,x,u,tau0,sigma0,gamma_dual=1,max_iter=10**6)
    C0=np.linalg.norm(u0-us)**2/sigma0**2+np.linalg.norm(x0-xs)**2/(sigma0*tau0)
    sig=sigma0
    for N in range(1,401):
        a.update(); sig=sig/np.sqrt(1+2*1*sig)   # harness recursion
        du=np.linalg.norm(u-us)**2
        if du>1e-22*(1+np.linalg.norm(us)**2): worst=max(worst,du/(sig**2*C0))
        assert abs(a.sigma-sig)<1e-12*sig
print('worst dual ratio',worst)
