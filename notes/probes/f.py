import time
t=time.time(); import numpy as np, sigpy as sp; print('import',time.time()-t)
rng=np.random.default_rng(0)
for kern,par in [('spline',1),('kaiser_bessel',5.0)]:
  for nd in (1,2,3):
    x=(rng.standard_normal([4]*nd)+0j); c=rng.uniform(-2,2,(5,nd))
    t=time.time(); sp.interpolate(x,c,kernel=kern,width=2.5,param=par); t1=time.time()-t
    t=time.time(); sp.interpolate(x,c,kernel=kern,width=2.5,param=par); t2=time.time()-t
    t=time.time(); sp.gridding(sp.interpolate(x,c,kernel=kern,width=2.5,param=par),c,[4]*nd,kernel=kern,width=2.5,param=par); t3=time.time()-t
    print(kern,nd,'first',round(t1,2),'second',round(t2,5),'gridding first',round(t3,2))
t=time.time(); sp.array_to_blocks(np.zeros((4,4)),[2,2],[1,1]); print('a2b',time.time()-t)
t=time.time(); sp.thresh.soft_thresh(0.1,np.zeros(3,complex)); print('soft',time.time()-t)
t=time.time(); sp.thresh.soft_thresh(0.1,np.zeros(3,float)); print('soft real',time.time()-t)
t=time.time(); sp.nufft(np.zeros((4,4),complex),np.zeros((3,2))); print('nufft (cached interp)',time.time()-t)
import sigpy.mri as mr
t=time.time(); mr.poisson((16,16),2,seed=0); print('poisson',time.time()-t)
