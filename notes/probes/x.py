import numpy as np, sigpy as sp, itertools
from sigpy import alg, prox
rng=np.random.default_rng(53); sp.thresh.soft_thresh(0.1,np.zeros(2)); sp.thresh.soft_thresh(0.1,np.zeros(2)+0j)
# --- C15: accelerated GradientMethod early stop at non-fixed point?
found=0; early=0
for trial in range(20000):
    n=int(rng.integers(1,4)); m=int(rng.integers(1,4))
    A=rng.integers(-3,4,(m,n))/2.0; y=rng.integers(-4,5,m)/2.0
    L=np.linalg.norm(A,2)**2
    if L==0: continue
    alpha=1/L*float(rng.choice([1,0.5,1.5]))
    kind=rng.integers(0,2); par=float(rng.choice([0.25,0.5,1,2]))
    pg=prox.L1Reg([n],par) if kind==0 else prox.BoxConstraint([n],-par,par)
    x=rng.integers(-6,7,n)/2.0
    if kind==1: x=np.clip(x,-par,par)
    gradf=lambda v:A.T@(A@v-y)
    g=alg.GradientMethod(gradf,x,alpha,proxg=pg,accelerate=True,max_iter=30,tol=0)
    while not g.done(): g.update()
    if g.iter<30:
        early+=1
        xs=x.copy(); g.update()
        rel=np.abs(xs-x).max()/(1+np.abs(x).max()); mx=max(globals().get("mx",0),rel); globals()["mx"]=mx
        if not np.array_equal(xs,x):
            found+=1
            if found<=3: print('NON-FIXED EARLY STOP: A',A.tolist(),'y',y.tolist(),'alpha',alpha,'kind',kind,par,'stopped at iter',g.iter-1,'x',xs,'->',x)
print('early stops',early,'non-fixed',found,'max rel change',mx)
# --- C05 oracle
def dftmat(n,c,inv,norm):
    k=np.arange(n)-c; M=np.exp((2j if inv else -2j)*np.pi*np.outer(k,k)/n)
    if norm=='ortho': M/=np.sqrt(n)
    elif inv: M/=n
    return M
bad=0
for trial in range(1500):
    nd=int(rng.integers(1,5)); s=[int(rng.integers(1,7)) for _ in range(nd)]
    axes=None if rng.random()<.3 else [int(a) for a in rng.permutation(nd)[:rng.integers(1,nd+1)]]
    if axes is not None: axes=[a-nd if rng.random()<.4 else a for a in axes]
    center=bool(rng.random()<.6); norm=['ortho',None][rng.integers(0,2)]
    x=rng.standard_normal(s)+1j*rng.standard_normal(s)
    osh=None
    if center and rng.random()<.4: osh=[int(rng.integers(1,8)) for _ in s]
    for inv,fn in ((False,sp.fft),(True,sp.ifft)):
        y=fn(x,oshape=osh,axes=axes,center=center,norm=norm)
        ref=x
        if osh is not None:
            r=np.zeros(osh,complex)
            for idx in np.ndindex(*osh):
                src=tuple(t-m//2+n//2 for t,m,n in zip(idx,osh,s))
                if all(0<=q<n for q,n in zip(src,s)): r[idx]=x[src]
            ref=r
        ax=range(nd) if axes is None else [a%nd for a in axes]
        for a in ax:
            n=ref.shape[a]; M=dftmat(n,n//2 if center else 0,inv,norm)
            ref=np.moveaxis(np.tensordot(M,ref,axes=([1],[a])),0,a)
        if y.shape!=ref.shape or np.abs(y-ref).max()>1e-11*(1+np.abs(ref).max()): bad+=1; print('FFT mismatch',s,axes,center,norm,osh,inv)
print('fft mismatches',bad)
