import numpy as np, sigpy as sp, itertools
rng=np.random.default_rng(2)
def ndft(x,coord,ndim):
    shp=x.shape[-ndim:]; grids=np.meshgrid(*[np.arange(n)-n//2 for n in shp],indexing='ij')
    pos=np.stack([g.ravel() for g in grids],-1)  # [Npix, ndim]
    c=coord.reshape(-1,ndim)
    E=np.exp(-2j*np.pi*(c/np.array(shp))@pos.T)/np.sqrt(np.prod(shp))
    xb=x.reshape(-1,np.prod(shp))
    return (xb@E.T).reshape(x.shape[:-ndim]+coord.shape[:-1])
worst={}
for trial in range(400):
    ndim=int(rng.integers(1,4)); shp=[int(rng.integers(1,13 if ndim<3 else 8)) for _ in range(ndim)]
    b=[int(rng.integers(1,3))] if rng.random()<.3 else []
    x=rng.standard_normal(b+shp)+1j*rng.standard_normal(b+shp)
    npts=int(rng.integers(1,20)); kind=rng.integers(0,4)
    c=rng.uniform(-0.5,0.5,(npts,ndim))*np.array(shp)
    if kind==1: c=np.round(c)
    if kind==2: c=c*4   # out of range
    if kind==3: c=np.round(c*2)/2
    ref=ndft(x,c,ndim)
    for (os_,w) in [(1.25,4),(2,4),(2,6),(1.5,5)]:
        y=sp.nufft(x,c,oversamp=os_,width=w)
        err=np.linalg.norm(y-ref)/np.linalg.norm(ref)
        key=(os_,w,min(shp)<=2)
        if err>worst.get(key,(0,))[0]: worst[key]=(err,shp,b,npts,int(kind))
for k,v in sorted(worst.items(), key=lambda kv: str(kv[0])): print(k,v)
