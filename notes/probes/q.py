import numpy as np, sigpy as sp, sigpy.mri as mr
from sigpy.mri import linop as ml
import sigpy.mri.rf as rf
exec(open('c.py').read().split("T=150")[0])
for t in range(30):
    nd=int(rng.integers(1,3)); nc=int(rng.integers(1,4)); w=int(rng.integers(1,4)); cal=[int(rng.integers(1,5)) for _ in range(nd)]
    img_ker=[c+w-1 for c in cal]; mps_ker=crandn([nc]+[w]*nd)
    wt=rng.uniform(0.1,2,cal) if rng.random()<.5 else None
    r=check('ConvSense',ml.ConvSense(img_ker,mps_ker,weights=wt))
    r=check('ConvImage',ml.ConvImage([nc]+[w]*nd,crandn(img_ker),weights=wt))
    # noncart
    npts=int(rng.integers(1,9)); coord=rng.uniform(-2,2,(npts,nd)); wt2=rng.uniform(0.1,2,(npts,)) if rng.random()<.5 else None
    try:
        r=check('ConvSenseNC',ml.ConvSense(img_ker,mps_ker,coord=coord,weights=wt2,grd_shape=cal),tol=1e-6)
        r=check('ConvImageNC',ml.ConvImage([nc]+[w]*nd,crandn(img_ker),coord=coord,weights=wt2,grd_shape=cal),tol=1e-6)
    except Exception as e: excs['NC ctor '+str(e)[:60]]+=1
    # Sense
    shp=[int(rng.integers(1,6)) for _ in range(int(rng.integers(2,4)))]; nc=int(rng.integers(1,5)); mps=crandn([nc]+shp)
    bs=int(rng.integers(1,nc+1)); wt=rng.uniform(0,2,shp) if rng.random()<.5 else None
    r=check('Sense',ml.Sense(mps,weights=wt,coil_batch_size=bs))
    npts=int(rng.integers(1,9)); coord=rng.uniform(-3,3,(npts,len(shp))); wt2=rng.uniform(0.1,2,(npts,)) if rng.random()<.5 else None
    r=check('SenseNC',ml.Sense(mps,coord=coord,weights=wt2,coil_batch_size=bs),tol=1e-6)
    # ptx
    dim=int(rng.integers(2,5)); nt=int(rng.integers(1,6)); sens=crandn([nc,dim,dim]); coord=rng.uniform(-3,3,(nt,2))
    b0=rng.uniform(-10,10,(dim,dim)) if rng.random()<.5 else None
    r=check('Ptx',rf.linop.PtxSpatialExplicit(sens,coord,4e-6,(dim,dim),b0))
print('OK',dict(ok)); print('FAILS',dict(fails)); 
for k,v in excs.items(): print('EXC',v,k)
