import numpy as np, sigpy.mri as mr, sigpy.mri.samp as samp, collections, time
rng=np.random.default_rng(23)
orig=samp._poisson; cnt=[0]
class Hang(Exception): pass
def wrapped(*a):
    cnt[0]+=1
    if cnt[0]>150: raise Hang()
    return orig(*a)
samp._poisson=wrapped
res=collections.Counter(); t0=time.time()
for trial in range(400):
    ny,nx=int(rng.integers(16,129)),int(rng.integers(16,129))
    if rng.random()<.5: nx=ny
    accel=float(rng.uniform(1.05,12)); calib=(int(rng.integers(0,ny//2)),int(rng.integers(0,nx//2))) if rng.random()<.6 else (0,0)
    tol=float(10**rng.uniform(-2,-0.5)); seed=int(rng.integers(0,1000)); crop=bool(rng.random()<.5)
    dtype=[np.complex128,np.float32,np.int32,bool][rng.integers(0,4)]
    st=np.random.get_state()
    cnt[0]=0
    try:
        m=mr.poisson((ny,nx),accel,calib=calib,tol=tol,seed=seed,crop_corner=crop,dtype=dtype)
    except Hang: res['hang']+=1; continue
    except ValueError as e: res['ValueError']+=1; continue
    st2=np.random.get_state()
    if not (st[0]==st2[0] and np.array_equal(st[1],st2[1]) and st[2:]==st2[2:]): res['rng changed']+=1
    mm=np.asarray(m).real.astype(float)
    if not np.isin(mm,[0,1]).all(): res['nonbinary']+=1
    a=mm.size/mm.sum()
    if abs(a-accel)>=tol: res['accel off']+=1
    cy,cx=calib
    blk=mm[int(ny/2-cy/2):int(ny/2+cy/2), int(nx/2-cx/2):int(nx/2+cx/2)]
    if blk.size and not blk.all(): res['calib hole']+=1
    if crop and calib==(0,0):
        y,x=np.mgrid[:ny,:nx]; r=np.sqrt(((x-nx/2)/(nx/2))**2+((y-ny/2)/(ny/2))**2)
        if (mm[r>=1]!=0).any(): res['outside ellipse']+=1
    cnt[0]=0
    m2=mr.poisson((ny,nx),accel,calib=calib,tol=tol,seed=seed,crop_corner=crop,dtype=dtype)
    if not np.array_equal(m,m2): res['nonrepro']+=1
    res['ok']+=1
print(dict(res), time.time()-t0)
