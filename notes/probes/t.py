import numpy as np, sigpy.mri.rf as rf
from sigpy.mri.rf import sim, optcont
rng=np.random.default_rng(31)
def comp1(a2,b2,a1,b1): return a2*a1-np.conj(b2)*b1, b2*a1+np.conj(a2)*b1      # Q=[[a,-b*],[b,a*]]
def comp2(a2,b2,a1,b1): return a2*a1-b2*np.conj(b1), a2*b1+b2*np.conj(a1)      # U=[[a,b],[-b*,a*]]
W=dict.fromkeys(['abrm','abrm_nd','abrm_hp','blochsim','ptx','unit'],0.0)
for trial in range(200):
    n1,n2=int(rng.integers(1,20)),int(rng.integers(1,20)); amp=10**rng.uniform(-2,0.7)
    r1=amp*(rng.standard_normal(n1)+1j*rng.standard_normal(n1)); r2=amp*(rng.standard_normal(n2)+1j*rng.standard_normal(n2))
    x=rng.uniform(-8,8,9); N=n1+n2
    # abrm
    a,b=sim.abrm(np.concatenate([r1,r2]),x); a1,b1=sim.abrm(r1,x*n1/N); a2,b2=sim.abrm(r2,x*n2/N)
    ac,bc=comp1(a2,b2,a1,b1); W['abrm']=max(W['abrm'],np.abs(a-ac).max(),np.abs(b-bc).max()); W['unit']=max(W['unit'],np.abs(abs(a)**2+abs(b)**2-1).max())
    # abrm_nd
    nd=int(rng.integers(1,4)); xx=rng.uniform(-3,3,(7,nd)); g1=rng.uniform(-1,1,(n1,nd)); g2=rng.uniform(-1,1,(n2,nd))
    a,b=sim.abrm_nd(np.concatenate([r1,r2]),xx,np.concatenate([g1,g2])); a1,b1=sim.abrm_nd(r1,xx,g1); a2,b2=sim.abrm_nd(r2,xx,g2)
    ac,bc=comp1(a2,b2,a1,b1); W['abrm_nd']=max(W['abrm_nd'],np.abs(a-ac).max(),np.abs(b-bc).max()); W['unit']=max(W['unit'],np.abs(abs(a)**2+abs(b)**2-1).max())
    # blochsim nd
    a,b=optcont.blochsim(np.concatenate([r1,r2]),xx,np.concatenate([g1,g2])); a1,b1=optcont.blochsim(r1,xx,g1); a2,b2=optcont.blochsim(r2,xx,g2)
    ac,bc=comp1(a2,b2,a1,b1); W['blochsim']=max(W['blochsim'],np.abs(a-ac).max(),np.abs(b-bc).max()); W['unit']=max(W['unit'],np.abs(abs(a)**2+abs(b)**2-1).max())
    # abrm_hp 1d
    gg1=rng.uniform(-1,1,n1); gg2=rng.uniform(-1,1,n2); d0=float(rng.uniform(-0.3,0.3))
    a,b=sim.abrm_hp(np.concatenate([r1,r2]),np.concatenate([gg1,gg2]),x,d0); a1,b1=sim.abrm_hp(r1,gg1,x,d0); a2,b2=sim.abrm_hp(r2,gg2,x,d0)
    ac,bc=comp1(a2,b2,a1,b1); W['abrm_hp']=max(W['abrm_hp'],np.abs(a-ac).max(),np.abs(b-bc).max()); W['unit']=max(W['unit'],np.abs(abs(a)**2+abs(b)**2-1).max())
    # ptx
    dim=3; nc=2; xp_=rng.uniform(-0.1,0.1,(dim*dim,2)); B1=1e-3*amp*(rng.standard_normal((nc,n1))+1j*rng.standard_normal((nc,n1))); B2=1e-3*amp*(rng.standard_normal((nc,n2))+1j*rng.standard_normal((nc,n2)))
    G1=rng.uniform(-5,5,(n1,2)); G2=rng.uniform(-5,5,(n2,2)); dt=4e-6
    sens=rng.standard_normal((nc,dim,dim))+1j*rng.standard_normal((nc,dim,dim))
    a,b,mm,mz=sim.abrm_ptx(np.concatenate([B1,B2],1),xp_,np.concatenate([G1,G2]),dt,sens=sens)
    a1,b1,_,_=sim.abrm_ptx(B1,xp_,G1,dt,sens=sens); a2,b2,_,_=sim.abrm_ptx(B2,xp_,G2,dt,sens=sens)
    ac,bc=comp2(a2,b2,a1,b1); W['ptx']=max(W['ptx'],np.abs(a-ac).max(),np.abs(b-bc).max()); W['unit']=max(W['unit'],np.abs(abs(a)**2+abs(b)**2-1).max())
print(W)
