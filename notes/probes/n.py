import numpy as np, sigpy as sp, collections
from sigpy import linop
rng=np.random.default_rng(17)
W=collections.defaultdict(float)
for trial in range(300):
    nd=int(rng.integers(1,4)); shp=[int(rng.integers(1,13 if nd<3 else 7)) for _ in range(nd)]
    b=[int(rng.integers(1,3))] if rng.random()<.3 else []
    npts=int(rng.integers(1,60)); c=rng.uniform(-0.5,0.5,(npts,nd))*np.array(shp)
    if rng.random()<.2: c*=3
    for os_,w in [(1.25,4),(2,4),(2,6),(1.25,3),(1.5,5)]:
        A=linop.NUFFT(b+shp,c,oversamp=os_,width=w,toeplitz=True)
        x=rng.standard_normal(b+shp)+1j*rng.standard_normal(b+shp)
        n1=A.N(x); n2=A.H(A(x))
        # scale: ||A||^2 ~ npts/N... use norm of exact gram applied bound: npts * ||x|| 
        e=np.linalg.norm(n1-n2)/(np.linalg.norm(n2)+1e-300)
        e2=np.linalg.norm(n1-n2)/(npts*np.linalg.norm(x)/np.sqrt(np.prod(shp)) * 1)  # crude
        W[(os_,w)]=max(W[(os_,w)],e)
        if e>0.2: print('big',shp,b,npts,os_,w,e)
        assert n1.shape==tuple(b+shp), (n1.shape)
for k in sorted(W): print(k,'%.2e'%W[k])
