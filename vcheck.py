#!/venv/bin/python
"""Single entry point: vcheck.py --prop Cnn [--tier quick|thorough] [--replay file ...]"""
import os
import sys

sys.path.insert(0, os.path.dirname(os.path.abspath(__file__)))
from vlib.runner import main  # noqa: E402

if __name__ == "__main__":
    sys.exit(main(sys.argv[1:]))
